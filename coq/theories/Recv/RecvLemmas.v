(* Helper lemmas for the receive-loop proofs (Recv/RecvProofs.v). *)
From Coq Require Import NArith List Bool PeanoNat Lia.
From V9 Require Import Lib.GoSem Lib.Bytes Gen.Consts Codec.Msg Codec.Unpack Codec.UnpackProofs Recv.Recv.
Import ListNotations.
Local Open Scope N_scope.

(* ---------- list facts ---------- *)
Lemma len_app : forall a b : bytes, len (a ++ b) = len a + len b.
Proof. intros. unfold len. rewrite app_length. lia. Qed.

Lemma firstn_app_le : forall n (a b : bytes), (n <= length a)%nat -> firstn n (a ++ b) = firstn n a.
Proof.
  intros. rewrite firstn_app. replace (n - length a)%nat with 0%nat by lia.
  cbn. apply app_nil_r.
Qed.

Lemma skipn_app_le : forall n (a b : bytes), (n <= length a)%nat -> skipn n (a ++ b) = skipn n a ++ b.
Proof.
  intros. rewrite skipn_app. replace (n - length a)%nat with 0%nat by lia.
  reflexivity.
Qed.

Lemma firstn_firstn_le : forall n m (a : bytes), (n <= m)%nat -> firstn n (firstn m a) = firstn n a.
Proof. intros. rewrite firstn_firstn. f_equal. lia. Qed.

(* a successful decode of a (possibly longer) buffer whose header announces sz *)
Lemma unpack_full_ok : forall dotu buf t m n,
  unpack dotu buf = Ok (t, m, n) ->
  n = le_dec (firstn 4 buf) /\ 7 <= n /\ n <= len buf.
Proof.
  intros. apply unpack_ok_shape in H. intuition.
Qed.

(* decoding the announced prefix: consumed size is the announced size *)
Lemma unpack_prefix_ok : forall dotu (st : bytes) t m n,
  le_dec (firstn 4 st) <= len st ->
  unpack dotu (firstn (N.to_nat (le_dec (firstn 4 st))) st) = Ok (t, m, n) ->
  n = le_dec (firstn 4 st) /\ 7 <= n.
Proof.
  intros dotu st t m n Hle H.
  rewrite <- unpack_prefix_only in H by exact Hle.
  apply unpack_full_ok in H. intuition.
Qed.

Section Gen.
  Variable negot : params -> msg -> params.
  Variable bufmul : N.

  (* ---------- frames: fuel irrelevance ---------- *)
  Lemma frames_fuel : forall F1 F2 p st,
    (length st < F1)%nat -> (length st < F2)%nat ->
    frames negot true F1 p st = frames negot true F2 p st.
  Proof.
    induction F1; intros F2 p st H1 H2; [lia|].
    destruct F2; [lia|]. cbn [frames].
    destruct (len st <=? 4); auto.
    destruct (true && (p_msize p <? le_dec (firstn 4 st))); auto.
    destruct (N.ltb_spec (len st) (le_dec (firstn 4 st))) as [Hlt|Hge]; auto.
    destruct (unpack (p_dotu p) (firstn (N.to_nat (le_dec (firstn 4 st))) st))
      as [[[tag m] n]| | |] eqn:U; auto.
    apply unpack_prefix_ok in U; [|exact Hge]. destruct U as [-> H7].
    unfold len in Hge.
    rewrite (IHF1 F2); auto; rewrite skipn_length; lia.
  Qed.

  (* ---------- resting states ---------- *)
  Definition resting (s : rstate) : Prop :=
    r_st s = Open /\ c_IOHDRSZ <= p_msize (r_par s) /\
    (len (r_acc s) <= 4 \/
     (le_dec (firstn 4 (r_acc s)) <= p_msize (r_par s) /\
      len (r_acc s) < le_dec (firstn 4 (r_acc s)) /\
      le_dec (firstn 4 (r_acc s)) <= r_cap s)).

  Lemma frames_resting : forall s F, resting s ->
    frames negot true F (r_par s) (r_acc s) = ([], r_par s, r_acc s, false).
  Proof.
    intros s F (_ & _ & [H|(H1 & H2 & _)]); destruct F; cbn [frames]; auto.
    - destruct (N.leb_spec (len (r_acc s)) 4); auto; lia.
    - destruct (N.leb_spec (len (r_acc s)) 4); auto.
      destruct (N.ltb_spec (p_msize (r_par s)) (le_dec (firstn 4 (r_acc s)))); [lia|].
      cbn [andb].
      destruct (N.ltb_spec (len (r_acc s)) (le_dec (firstn 4 (r_acc s)))); [auto|lia].
  Qed.

  Hypothesis Hneg : forall p m, c_IOHDRSZ <= p_msize p ->
    c_IOHDRSZ <= p_msize (negot p m) /\ p_msize (negot p m) <= p_msize p.
  Hypothesis Hbm : 1 <= bufmul.

  (* ---------- inner vs frames ---------- *)
  Definition inner_post (s s' : rstate) (its : list item) : Prop :=
    (r_st s' = ClosedBad /\
     forall more F, (length (r_acc s ++ more) < F)%nat ->
       frames negot true F (r_par s) (r_acc s ++ more) = (its, r_par s', r_acc s' ++ more, true))
    \/
    (resting s' /\
     forall more F F', (length (r_acc s ++ more) < F)%nat -> (length (r_acc s' ++ more) < F')%nat ->
       frames negot true F (r_par s) (r_acc s ++ more) =
       let '(its2, p2, rest2, bad2) := frames negot true F' (r_par s') (r_acc s' ++ more) in
       (its ++ its2, p2, rest2, bad2)).

  Lemma inner_frames : forall f s s' its,
    r_st s = Open -> c_IOHDRSZ <= p_msize (r_par s) ->
    (length (r_acc s) < f)%nat ->
    inner negot true bufmul f s = (s', its) ->
    inner_post s s' its.
  Proof.
    induction f; intros s s' its Hop Hms Hf Hin; [lia|].
    cbn [inner] in Hin.
    destruct (N.leb_spec (len (r_acc s)) 4) as [H4|H4].
    { inversion Hin; subst s' its. right. split.
      - unfold resting. auto.
      - intros more F F' HF HF'. rewrite (frames_fuel F F') by auto.
        destruct (frames negot true F' (r_par s) (r_acc s ++ more)) as [[[a b] c] d]. reflexivity. }
    set (sz := le_dec (firstn 4 (r_acc s))) in *.
    assert (Hf4 : forall more, firstn 4 (r_acc s ++ more) = firstn 4 (r_acc s)).
    { intros. apply firstn_app_le. unfold len in H4. lia. }
    assert (Hl4 : forall more, (len (r_acc s ++ more) <=? 4) = false).
    { intros. apply N.leb_gt. rewrite len_app. lia. }
    destruct (N.ltb_spec (p_msize (r_par s)) sz) as [Hbig|Hsm]; cbn [andb] in Hin.
    { inversion Hin; subst s' its. left. split; [reflexivity|].
      intros more F HF. destruct F; [lia|]. cbn [frames r_acc r_par].
      rewrite Hl4, Hf4. fold sz.
      destruct (N.ltb_spec (p_msize (r_par s)) sz); [reflexivity|lia]. }
    destruct (N.ltb_spec (len (r_acc s)) sz) as [Hshort|Hfull].
    { inversion Hin; subst s' its. right. split.
      - unfold resting; cbn [r_st r_par r_acc r_cap]. fold sz.
        split; [reflexivity|]. split; [assumption|]. right.
        split; [assumption|]. split; [assumption|].
        destruct (N.ltb_spec (r_cap s) sz); [|assumption].
        unfold c_IOHDRSZ in Hms. nia.
      - intros more F F' HF HF'. cbn [r_acc r_par] in *. rewrite (frames_fuel F F') by auto.
        destruct (frames negot true F' (r_par s) (r_acc s ++ more)) as [[[a b] c] d]. reflexivity. }
    assert (Hpre : forall more, firstn (N.to_nat sz) (r_acc s ++ more) = firstn (N.to_nat sz) (r_acc s)).
    { intros. apply firstn_app_le. unfold len in Hfull. lia. }
    assert (Hun : unpack (p_dotu (r_par s)) (r_acc s)
                  = unpack (p_dotu (r_par s)) (firstn (N.to_nat sz) (r_acc s))).
    { apply unpack_prefix_only. exact Hfull. }
    assert (Hfr : forall more F, (length (r_acc s ++ more) < S F)%nat ->
       frames negot true (S F) (r_par s) (r_acc s ++ more) =
       match unpack (p_dotu (r_par s)) (r_acc s) with
       | Ok (tag, m, _) =>
         let '(its, p', rest, bad) := frames negot true F (negot (r_par s) m) (skipn (N.to_nat sz) (r_acc s) ++ more) in
         (mkItem tag m (firstn (N.to_nat sz) (r_acc s)) :: its, p', rest, bad)
       | _ => ([], r_par s, r_acc s ++ more, true)
       end).
    { intros more F HF. cbn [frames]. rewrite Hl4, Hf4. fold sz.
      destruct (N.ltb_spec (p_msize (r_par s)) sz); [lia|]. cbn [andb].
      destruct (N.ltb_spec (len (r_acc s ++ more)) sz) as [Hc|_]; [rewrite len_app in Hc; lia|].
      rewrite Hpre, <- Hun. rewrite skipn_app_le by (unfold len in Hfull; lia). reflexivity. }
    destruct (unpack (p_dotu (r_par s)) (r_acc s)) as [[[tag m] n]| | |] eqn:U.
    2-4: inversion Hin; subst s' its; left; (split; [reflexivity|]);
         intros more F HF; (destruct F; [lia|]); rewrite Hfr by exact HF; reflexivity.
    apply unpack_full_ok in U. fold sz in U. destruct U as (-> & H7 & _).
    destruct (inner negot true bufmul f
               (mkR (skipn (N.to_nat sz) (r_acc s)) (r_cap s - sz) (negot (r_par s) m) Open))
      as [s'' its2] eqn:Hrec.
    inversion Hin; subst s'' its. clear Hin.
    destruct (Hneg (r_par s) m Hms) as [Hms' _].
    apply IHf in Hrec; cbn [r_st r_par r_acc]; auto.
    2:{ rewrite skipn_length. unfold len in Hfull. lia. }
    assert (Hlen : forall more F, (length (r_acc s ++ more) < S F)%nat ->
                   (length (skipn (N.to_nat sz) (r_acc s) ++ more) < F)%nat).
    { intros more F. rewrite !app_length, skipn_length. unfold len in Hfull. lia. }
    destruct Hrec as [(Hcb & Hfrm)|(Hrest & Hfrm)]; cbn [r_acc r_par] in Hfrm.
    - left. split; [assumption|]. intros more F HF. destruct F; [lia|].
      rewrite Hfr by exact HF. rewrite Hfrm by (apply Hlen; exact HF). reflexivity.
    - right. split; [assumption|]. intros more F F' HF HF'. destruct F; [lia|].
      rewrite Hfr by exact HF. rewrite (Hfrm more F F') by (auto using Hlen).
      destruct (frames negot true F' (r_par s') (r_acc s' ++ more)) as [[[a b] c] d]. reflexivity.
  Qed.
End Gen.

(* ---------- run vs frames ---------- *)
Definition run_post (s' : rstate) (its : list item) (fr : list item * params * bytes * bool) : Prop :=
  let '(its', p', rest, bad) := fr in
  its = its' /\ r_st s' <> ReadEmpty /\
  (bad = true <-> r_st s' = ClosedBad) /\
  (bad = false -> r_acc s' = rest /\ r_par s' = p').

Section Run.
  Variable negot : params -> msg -> params.
  Variable bufmul : N.
  Hypothesis Hneg : forall p m, c_IOHDRSZ <= p_msize p ->
    c_IOHDRSZ <= p_msize (negot p m) /\ p_msize (negot p m) <= p_msize p.
  Hypothesis Hbm : 1 <= bufmul.

  Lemma run_not_open : forall f s segs, r_st s <> Open -> run negot true bufmul f s segs = (s, []).
  Proof.
    destruct f; intros; cbn [run]; auto. destruct segs; auto.
    destruct (r_st s); congruence.
  Qed.

  Lemma concat_left : forall (left : bytes) rest,
    concat (match left with [] => rest | _ => left :: rest end) = left ++ concat rest.
  Proof. destruct left; reflexivity. Qed.

  Lemma run_frames : forall fuel s segs s' its F,
    resting s -> (length (concat segs) + length segs < fuel)%nat ->
    (length (r_acc s ++ concat segs) < F)%nat ->
    run negot true bufmul fuel s segs = (s', its) ->
    run_post s' its (frames negot true F (r_par s) (r_acc s ++ concat segs)).
  Proof.
    induction fuel; intros s segs s' its F Hrest Hfuel HF Hrun; [lia|].
    destruct segs as [|seg rest].
    { cbn [run] in Hrun. inversion Hrun; subst s' its.
      cbn [concat]. rewrite app_nil_r, frames_resting by assumption.
      destruct Hrest as (Hop & _). unfold run_post. rewrite Hop.
      repeat split; auto; congruence. }
    pose proof Hrest as (Hop & Hms & Hr).
    cbn [run] in Hrun. rewrite Hop in Hrun.
    remember (if r_cap s <? p_msize (r_par s) then bufmul * p_msize (r_par s) else r_cap s) as cap eqn:Hcap.
    assert (Hroom : len (r_acc s) < cap).
    { unfold c_IOHDRSZ in Hms. subst cap.
      destruct (N.ltb_spec (r_cap s) (p_msize (r_par s))); destruct Hr as [?|(?&?&?)]; nia. }
    destruct (outer negot true bufmul s seg) as [s1 its1] eqn:Ho.
    unfold outer in Ho. rewrite Hop, <- Hcap in Ho.
    destruct (N.leb_spec cap (len (r_acc s))) as [?|_]; [lia|].
    remember (N.to_nat (cap - len (r_acc s))) as room eqn:Hrm.
    destruct (run negot true bufmul fuel s1
                (match skipn room seg with [] => rest | _ => skipn room seg :: rest end))
      as [s2 its2] eqn:Hr2.
    inversion Hrun; subst s' its. clear Hrun.
    apply inner_frames in Ho; cbn [r_st r_par r_acc]; auto.
    assert (Hstream : r_acc s ++ concat (seg :: rest)
                      = (r_acc s ++ firstn room seg) ++ (skipn room seg ++ concat rest)).
    { cbn [concat]. rewrite <- app_assoc. f_equal. rewrite app_assoc, firstn_skipn. reflexivity. }
    rewrite Hstream in HF |- *.
    destruct Ho as [(Hcb & Hfrm)|(Hrest1 & Hfrm)]; cbn [r_acc r_par] in Hfrm.
    - rewrite run_not_open in Hr2 by congruence. inversion Hr2; subst s2 its2.
      rewrite Hfrm by exact HF. unfold run_post. rewrite app_nil_r, Hcb.
      repeat split; auto; congruence.
    - apply IHfuel with (F := S (length (r_acc s1 ++ skipn room seg ++ concat rest))) in Hr2;
        [|assumption| |rewrite concat_left; lia].
      + rewrite concat_left in Hr2.
        rewrite (Hfrm _ F (S (length (r_acc s1 ++ skipn room seg ++ concat rest)))) by (auto; lia).
        destruct (frames negot true (S (length (r_acc s1 ++ skipn room seg ++ concat rest)))
                         (r_par s1) (r_acc s1 ++ skipn room seg ++ concat rest)) as [[[a b] c] d].
        unfold run_post in *. destruct Hr2 as (-> & H2 & H3 & H4). auto.
      + cbn [concat length] in Hfuel. rewrite app_length in Hfuel.
        assert (Hroom1 : (1 <= room)%nat) by lia.
        destruct (skipn room seg) as [|b l] eqn:Hsk.
        * lia.
        * cbn [concat length]. rewrite app_length.
          assert (Hl : length (b :: l) = (length seg - room)%nat) by (rewrite <- Hsk; apply skipn_length).
          assert (length (b :: l) <> 0)%nat by (cbn; lia).
          lia.
  Qed.
End Run.

(* ---------- buffer bound ---------- *)
Section Bound.
  Variable negot : params -> msg -> params.
  Variable bufmul : N.
  Variable cm : bool.
  Variable B : N.
  Hypothesis Hneg : forall p m, c_IOHDRSZ <= p_msize p ->
    c_IOHDRSZ <= p_msize (negot p m) /\ p_msize (negot p m) <= p_msize p.

  Definition bounded (s : rstate) : Prop :=
    r_cap s <= B /\ len (r_acc s) <= B /\ bufmul * p_msize (r_par s) <= B /\
    c_IOHDRSZ <= p_msize (r_par s).

  Lemma inner_bounded : forall f s s' its,
    bounded s -> inner negot cm bufmul f s = (s', its) -> bounded s'.
  Proof.
    induction f; intros s s' its Hb Hin; cbn [inner] in Hin.
    { inversion Hin; subst; assumption. }
    destruct (len (r_acc s) <=? 4). { inversion Hin; subst; assumption. }
    destruct Hb as (H1 & H2 & H3 & H4).
    remember (le_dec (firstn 4 (r_acc s))) as sz eqn:Hsz. clear Hsz.
    destruct (cm && (p_msize (r_par s) <? sz)).
    { inversion Hin; subst. unfold bounded; cbn [r_cap r_acc r_par]. auto. }
    destruct (len (r_acc s) <? sz).
    { inversion Hin; subst. unfold bounded; cbn [r_cap r_acc r_par].
      destruct (r_cap s <? sz); auto. }
    destruct (unpack (p_dotu (r_par s)) (r_acc s)) as [[[tag m] n]| | |] eqn:U.
    2-4: inversion Hin; subst; unfold bounded; cbn [r_cap r_acc r_par]; auto.
    destruct (inner negot cm bufmul f
               (mkR (skipn (N.to_nat n) (r_acc s)) (r_cap s - n) (negot (r_par s) m) Open))
      as [s'' its2] eqn:Hrec.
    inversion Hin; subst s'' its. apply IHf in Hrec; auto.
    destruct (Hneg (r_par s) m H4) as [Ha Hb].
    unfold bounded; cbn [r_cap r_acc r_par]. repeat split; auto.
    - lia.
    - unfold len in *. rewrite skipn_length. lia.
    - nia.
  Qed.

  Lemma outer_bounded : forall s seg s' its,
    bounded s -> outer negot cm bufmul s seg = (s', its) -> bounded s'.
  Proof.
    intros s seg s' its Hb Ho. unfold outer in Ho.
    destruct (r_st s). 2,3: inversion Ho; subst; assumption.
    destruct Hb as (H1 & H2 & H3 & H4).
    remember (if r_cap s <? p_msize (r_par s) then bufmul * p_msize (r_par s) else r_cap s) as cap eqn:Hcap.
    assert (Hc : cap <= B) by (subst cap; destruct (r_cap s <? p_msize (r_par s)); auto).
    destruct (N.leb_spec cap (len (r_acc s))).
    { inversion Ho; subst s' its. unfold bounded; cbn [r_cap r_acc r_par]. auto. }
    apply inner_bounded in Ho; auto.
    unfold bounded; cbn [r_cap r_acc r_par]. repeat split; auto.
    rewrite len_app. unfold len in *. rewrite firstn_length. lia.
  Qed.

  Lemma run_bounded : forall f s segs s' its,
    bounded s -> run negot cm bufmul f s segs = (s', its) -> bounded s'.
  Proof.
    induction f; intros s segs s' its Hb Hr; cbn [run] in Hr.
    { inversion Hr; subst; assumption. }
    destruct segs as [|seg rest]. { inversion Hr; subst; assumption. }
    destruct (r_st s). 2,3: inversion Hr; subst; assumption.
    destruct (outer negot cm bufmul s seg) as [s1 its1] eqn:Ho.
    match type of Hr with (let '(_, _) := run _ _ _ _ ?a ?b in _) = _ =>
      destruct (run negot cm bufmul f a b) as [s2 its2] eqn:Hr2 end.
    inversion Hr; subst s2 its. apply outer_bounded in Ho; auto.
    eapply IHf; eauto.
  Qed.
End Bound.

(* ---------- facts about frames alone ---------- *)
Section FramesFacts.
  Variable negot : params -> msg -> params.
  Hypothesis Hneg : forall p m, c_IOHDRSZ <= p_msize p ->
    c_IOHDRSZ <= p_msize (negot p m) /\ p_msize (negot p m) <= p_msize p.

  Lemma frames_rest_waits : forall F p stream its p' rest bad,
    (length stream < F)%nat ->
    frames negot true F p stream = (its, p', rest, bad) ->
    bad = false -> 4 < len rest ->
    le_dec (firstn 4 rest) <= p_msize p' /\ len rest < le_dec (firstn 4 rest).
  Proof.
    induction F; intros p stream its p' rest bad HF Hfr Hbad H4; [lia|].
    cbn [frames] in Hfr.
    destruct (N.leb_spec (len stream) 4). { inversion Hfr; subst. lia. }
    destruct (N.ltb_spec (p_msize p) (le_dec (firstn 4 stream))); cbn [andb] in Hfr.
    { inversion Hfr; subst. discriminate. }
    destruct (N.ltb_spec (len stream) (le_dec (firstn 4 stream))) as [Hlt|Hge].
    { inversion Hfr; subst. auto. }
    destruct (unpack (p_dotu p) (firstn (N.to_nat (le_dec (firstn 4 stream))) stream))
      as [[[tag m] n]| | |] eqn:U.
    2-4: inversion Hfr; subst; discriminate.
    apply unpack_prefix_ok in U; [|exact Hge]. destruct U as [-> H7].
    destruct (frames negot true F (negot p m) (skipn (N.to_nat (le_dec (firstn 4 stream))) stream))
      as [[[a b] c] d] eqn:Hrec.
    inversion Hfr; subst. eapply IHF in Hrec; eauto.
    rewrite skipn_length. unfold len in Hge. lia.
  Qed.

  Lemma frames_items_framed : forall F p stream its p' rest bad it,
    c_IOHDRSZ <= p_msize p ->
    frames negot true F p stream = (its, p', rest, bad) ->
    In it its ->
    7 <= len (i_frame it) /\ le_dec (firstn 4 (i_frame it)) = len (i_frame it) /\
    len (i_frame it) <= p_msize p.
  Proof.
    induction F; intros p stream its p' rest bad it Hms Hfr Hin; cbn [frames] in Hfr.
    { inversion Hfr; subst. destruct Hin. }
    destruct (N.leb_spec (len stream) 4). { inversion Hfr; subst. destruct Hin. }
    destruct (N.ltb_spec (p_msize p) (le_dec (firstn 4 stream))); cbn [andb] in Hfr.
    { inversion Hfr; subst. destruct Hin. }
    destruct (N.ltb_spec (len stream) (le_dec (firstn 4 stream))) as [Hlt|Hge].
    { inversion Hfr; subst. destruct Hin. }
    destruct (unpack (p_dotu p) (firstn (N.to_nat (le_dec (firstn 4 stream))) stream))
      as [[[tag m] n]| | |] eqn:U.
    2-4: inversion Hfr; subst; destruct Hin.
    apply unpack_prefix_ok in U; [|exact Hge]. destruct U as [-> H7].
    remember (le_dec (firstn 4 stream)) as sz eqn:Hsz.
    destruct (frames negot true F (negot p m) (skipn (N.to_nat sz) stream))
      as [[[a b] c] d] eqn:Hrec.
    inversion Hfr; subst its p' rest bad. destruct (Hneg p m Hms) as [Ha Hb].
    destruct Hin as [<-|Hin].
    - cbn [i_frame].
      assert (Hl : len (firstn (N.to_nat sz) stream) = sz).
      { unfold len in *. rewrite firstn_length. lia. }
      rewrite Hl. rewrite firstn_firstn_le by lia. auto.
    - eapply IHF in Hrec; eauto. destruct Hrec as (?&?&?). repeat split; auto. lia.
  Qed.
End FramesFacts.
