(* Model of the two receive loops: Conn.recv (srv_conn.go) and Clnt.recv
   (clnt_clnt.go): buffer bookkeeping (len(buf), pos), the inner framing loop, the
   size checks, reallocation, and re-reading msize/dialect after every message
   (a synchronous Tversion may change them).  The transport is the list of
   segments its Read calls return.  Model definitions only. *)
From Coq Require Import NArith List Bool PeanoNat.
From V9 Require Import Lib.GoSem Lib.Bytes Gen.Consts Codec.Msg Codec.Unpack.
Import ListNotations.
Local Open Scope N_scope.

(* negotiated parameters the loop re-reads *)
Record params := mkParams { p_msize : N; p_dotu : bool }.

(* effect of a delivered message on the parameters (server: Srv.version run
   synchronously for Tversion; client: none) *)
Definition negot_srv (srv_dotu : bool) (p : params) (m : msg) : params :=
  match m with
  | Tversion_ ms ver =>
    if ms <? c_IOHDRSZ then p
    else mkParams (if ms <? p_msize p then ms else p_msize p)
                  (bytes_eqb ver [57;80;50;48;48;48;46;117] && srv_dotu)
  | _ => p
  end.

Definition negot_none (p : params) (m : msg) : params := p.

(* what the loop hands on: the decoded message with its tag and the frame bytes *)
Record item := mkItem { i_tag : N; i_msg : msg; i_frame : bytes }.

Inductive status :=
| Open            (* waiting for more bytes *)
| ClosedBad       (* announced size > msize, or Unpack failed: connection dropped *)
| ReadEmpty.      (* the loop would call Read with an empty slice (n == 0 => treated as EOF / nil error dereference) *)

Record rstate := mkR {
  r_acc : bytes;      (* buf[0:pos] *)
  r_cap : N;          (* len(buf) *)
  r_par : params;
  r_st : status }.

Section Loop.
  Variable negot : params -> msg -> params.
  Variable check_msize : bool.     (* sz > Msize closes the connection (both loops) *)
  Variable bufmul : N.             (* 8 *)

  (* inner loop: for pos > 4 { ... }  by fuel *)
  Fixpoint inner (fuel : nat) (s : rstate) : rstate * list item :=
    match fuel with
    | O => (s, [])
    | S f =>
      if len (r_acc s) <=? 4 then (s, [])
      else
        let sz := le_dec (firstn 4 (r_acc s)) in
        if check_msize && (p_msize (r_par s) <? sz) then (mkR (r_acc s) (r_cap s) (r_par s) ClosedBad, [])
        else if len (r_acc s) <? sz then
          (* if len(buf) < int(sz) { b := make([]byte, Msize*8); copy(b, buf[0:pos]); buf = b }; break *)
          let cap' := if r_cap s <? sz then bufmul * p_msize (r_par s) else r_cap s in
          (mkR (r_acc s) cap' (r_par s) Open, [])
        else
          match unpack (p_dotu (r_par s)) (r_acc s) with
          | Ok (tag, m, fcsize) =>
            let it := mkItem tag m (firstn (N.to_nat fcsize) (r_acc s)) in
            let s' := mkR (skipn (N.to_nat fcsize) (r_acc s)) (r_cap s - fcsize) (negot (r_par s) m) Open in
            let '(s'', its) := inner f s' in
            (s'', it :: its)
          | _ => (mkR (r_acc s) (r_cap s) (r_par s) ClosedBad, [])
          end
    end.

  (* one outer iteration with the segment the transport's Read returns *)
  Definition outer (s : rstate) (seg : bytes) : rstate * list item :=
    match r_st s with
    | Open =>
      (* if len(buf) < int(Msize) { b := make([]byte, Msize*8); copy(b, buf[0:pos]); buf = b } *)
      let cap := if r_cap s <? p_msize (r_par s) then bufmul * p_msize (r_par s) else r_cap s in
      (* Read(buf[pos:]) *)
      if cap <=? len (r_acc s) then (mkR (r_acc s) cap (r_par s) ReadEmpty, [])
      else
        let room := N.to_nat (cap - len (r_acc s)) in
        let got := firstn room seg in      (* Read returns at most len(buf)-pos bytes *)
        let s1 := mkR (r_acc s ++ got) cap (r_par s) Open in
        inner (S (length (r_acc s1))) s1
    | _ => (s, [])
    end.

  (* what is left of a segment that did not fit into one Read is returned by the next *)
  Fixpoint run (fuel : nat) (s : rstate) (segs : list bytes) : rstate * list item :=
    match fuel with
    | O => (s, [])
    | S f =>
      match segs with
      | [] => (s, [])
      | seg :: rest =>
        match r_st s with
        | Open =>
          let cap := if r_cap s <? p_msize (r_par s) then bufmul * p_msize (r_par s) else r_cap s in
          let room := N.to_nat (cap - len (r_acc s)) in
          let '(s1, its1) := outer s seg in
          let left := skipn room seg in
          let '(s2, its2) := run f s1 (match left with [] => rest | _ => left :: rest end) in
          (s2, its1 ++ its2)
        | _ => (s, [])
        end
      end
    end.

  Definition rinit (p : params) : rstate := mkR [] (bufmul * p_msize p) p Open.
End Loop.

(* ---------- the framing specification: depends on the byte stream only ---------- *)
Section Spec.
  Variable negot : params -> msg -> params.
  Variable check_msize : bool.

  Fixpoint frames (fuel : nat) (p : params) (stream : bytes) : list item * params * bytes * bool (* closed bad *) :=
    match fuel with
    | O => ([], p, stream, false)
    | S f =>
      if len stream <=? 4 then ([], p, stream, false)
      else
        let sz := le_dec (firstn 4 stream) in
        if check_msize && (p_msize p <? sz) then ([], p, stream, true)
        else if len stream <? sz then ([], p, stream, false)
        else
          match unpack (p_dotu p) (firstn (N.to_nat sz) stream) with
          | Ok (tag, m, _) =>
            let '(its, p', rest, bad) := frames f (negot p m) (skipn (N.to_nat sz) stream) in
            (mkItem tag m (firstn (N.to_nat sz) stream) :: its, p', rest, bad)
          | _ => ([], p, stream, true)
          end
    end.
End Spec.

Definition srv_run (srv_dotu : bool) (p : params) (segs : list bytes) :=
  run (negot_srv srv_dotu) true c_bufmul_srv (S (length (concat segs) + length segs))
      (rinit c_bufmul_srv p) segs.

Definition clnt_run (p : params) (segs : list bytes) :=
  run negot_none true c_bufmul_clnt (S (length (concat segs) + length segs))
      (rinit c_bufmul_clnt p) segs.

Definition srv_frames (srv_dotu : bool) (p : params) (stream : bytes) :=
  frames (negot_srv srv_dotu) true (S (length stream)) p stream.

Definition clnt_frames (p : params) (stream : bytes) :=
  frames negot_none true (S (length stream)) p stream.
