(* Proofs about the receive-loop model (Recv/Recv.v). *)
From Coq Require Import NArith List Bool PeanoNat Lia.
From V9 Require Import Lib.GoSem Lib.Bytes Gen.Consts Codec.Msg Codec.Unpack Codec.UnpackProofs Recv.Recv Recv.RecvLemmas.
Import ListNotations.
Local Open Scope N_scope.

(* parameters stay sane: msize never drops below the I/O header size *)
Definition negot_ok (negot : params -> msg -> params) : Prop :=
  forall p m, c_IOHDRSZ <= p_msize p -> c_IOHDRSZ <= p_msize (negot p m) /\ p_msize (negot p m) <= p_msize p.

Theorem negot_srv_ok : forall srv_dotu, negot_ok (negot_srv srv_dotu).
Proof.
  unfold negot_ok, negot_srv. intros srv_dotu p m H.
  destruct m; try (split; [assumption|lia]).
  destruct (N.ltb_spec msize c_IOHDRSZ); [split; [assumption|lia]|].
  cbn [p_msize].
  destruct (N.ltb_spec msize (p_msize p)); split; lia.
Qed.

Theorem negot_none_ok : negot_ok negot_none.
Proof.
  unfold negot_ok, negot_none. intros p m H. split; [assumption|lia].
Qed.

(* Main theorem, generic in the negotiation function: for ANY way of cutting the
   stream into non-empty transport reads, the loop delivers exactly the frames of
   the framing specification (which looks at the concatenated stream only), ends
   with the same parameters, detects a bad frame iff the specification does, keeps
   the same unconsumed bytes, and never calls Read with an empty slice. *)
Theorem run_segmentation_invariant : forall negot bufmul p segs,
  negot_ok negot -> 1 <= bufmul -> c_IOHDRSZ <= p_msize p ->
  Forall (fun s => s <> []) segs ->
  forall s its its' p' rest bad,
  run negot true bufmul (S (length (concat segs) + length segs)) (rinit bufmul p) segs = (s, its) ->
  frames negot true (S (length (concat segs))) p (concat segs) = (its', p', rest, bad) ->
  its = its' /\ r_st s <> ReadEmpty /\
  (bad = true <-> r_st s = ClosedBad) /\
  (bad = false -> r_acc s = rest /\ r_par s = p').
Proof.
  intros negot bufmul p segs Hneg Hbm Hms _ s its its' p' rest bad Hrun Hfr.
  assert (Hrest : resting (rinit bufmul p)).
  { unfold resting, rinit; cbn [r_st r_par r_acc]. split; [reflexivity|].
    split; [assumption|]. left. unfold len; cbn [length]. lia. }
  pose proof (run_frames negot bufmul Hneg Hbm _ _ _ _ _ (S (length (concat segs)))
                Hrest (Nat.lt_succ_diag_r _) (Nat.lt_succ_diag_r _) Hrun) as H.
  cbn [rinit r_acc r_par app] in H. rewrite Hfr in H. exact H.
Qed.

(* generic form of the two corollaries below *)
Lemma two_segmentations : forall negot bufmul p segs1 segs2,
  negot_ok negot -> 1 <= bufmul -> c_IOHDRSZ <= p_msize p ->
  Forall (fun s => s <> []) segs1 -> Forall (fun s => s <> []) segs2 ->
  concat segs1 = concat segs2 ->
  let r1 := run negot true bufmul (S (length (concat segs1) + length segs1)) (rinit bufmul p) segs1 in
  let r2 := run negot true bufmul (S (length (concat segs2) + length segs2)) (rinit bufmul p) segs2 in
  snd r1 = snd r2 /\ r_st (fst r1) = r_st (fst r2).
Proof.
  intros negot bufmul p segs1 segs2 Hneg Hbm Hms H1 H2 Hc r1 r2.
  destruct r1 as [s1 its1] eqn:E1. destruct r2 as [s2 its2] eqn:E2. subst r1 r2.
  destruct (frames negot true (S (length (concat segs1))) p (concat segs1)) as [[[its' p'] rest] bad] eqn:Hfr.
  pose proof (run_segmentation_invariant negot bufmul p segs1 Hneg Hbm Hms H1 _ _ _ _ _ _ E1 Hfr)
    as (Ha1 & Hb1 & Hc1 & _).
  rewrite Hc in Hfr.
  pose proof (run_segmentation_invariant negot bufmul p segs2 Hneg Hbm Hms H2 _ _ _ _ _ _ E2 Hfr)
    as (Ha2 & Hb2 & Hc2 & _).
  cbn [fst snd]. split; [congruence|].
  destruct bad.
  - destruct Hc1 as [Hc1 _], Hc2 as [Hc2 _]. rewrite Hc1, Hc2; reflexivity.
  - destruct (r_st s1), (r_st s2); try reflexivity; try congruence;
      try (destruct Hc1 as [_ Hc1]; specialize (Hc1 eq_refl); discriminate);
      try (destruct Hc2 as [_ Hc2]; specialize (Hc2 eq_refl); discriminate).
Qed.

(* hence any two segmentations of the same stream are indistinguishable *)
Theorem srv_any_two_segmentations : forall srv_dotu p segs1 segs2,
  c_IOHDRSZ <= p_msize p ->
  Forall (fun s => s <> []) segs1 -> Forall (fun s => s <> []) segs2 ->
  concat segs1 = concat segs2 ->
  snd (srv_run srv_dotu p segs1) = snd (srv_run srv_dotu p segs2) /\
  r_st (fst (srv_run srv_dotu p segs1)) = r_st (fst (srv_run srv_dotu p segs2)).
Proof.
  intros srv_dotu p segs1 segs2 Hms H1 H2 Hc. unfold srv_run.
  apply (two_segmentations (negot_srv srv_dotu) c_bufmul_srv); auto.
  - apply negot_srv_ok.
  - unfold c_bufmul_srv. lia.
Qed.

Theorem clnt_any_two_segmentations : forall p segs1 segs2,
  c_IOHDRSZ <= p_msize p ->
  Forall (fun s => s <> []) segs1 -> Forall (fun s => s <> []) segs2 ->
  concat segs1 = concat segs2 ->
  snd (clnt_run p segs1) = snd (clnt_run p segs2) /\
  r_st (fst (clnt_run p segs1)) = r_st (fst (clnt_run p segs2)).
Proof.
  intros p segs1 segs2 Hms H1 H2 Hc. unfold clnt_run.
  apply (two_segmentations negot_none c_bufmul_clnt); auto.
  - apply negot_none_ok.
  - unfold c_bufmul_clnt. lia.
Qed.

(* the buffer never grows beyond bufmul * (initial msize) and holds at most that many pending bytes *)
Theorem buffer_bounded : forall negot bufmul p segs s its,
  negot_ok negot -> 1 <= bufmul -> c_IOHDRSZ <= p_msize p ->
  run negot true bufmul (S (length (concat segs) + length segs)) (rinit bufmul p) segs = (s, its) ->
  r_cap s <= bufmul * p_msize p /\ len (r_acc s) <= bufmul * p_msize p.
Proof.
  intros negot bufmul p segs s its Hneg Hbm Hms Hrun.
  apply (run_bounded negot bufmul true (bufmul * p_msize p) Hneg) in Hrun.
  - destruct Hrun as (H1 & H2 & _). auto.
  - unfold bounded, rinit; cbn [r_cap r_acc r_par]. unfold len; cbn [length].
    repeat split; auto; lia.
Qed.

(* a frame announcing more than msize (or less than a header) is never executed:
   it is not among the delivered items and closes the connection *)
Theorem oversize_frame_drops : forall negot p stream its p' rest bad sz,
  negot_ok negot -> c_IOHDRSZ <= p_msize p ->
  frames negot true (S (length stream)) p stream = (its, p', rest, bad) ->
  bad = false -> 4 < len rest -> sz = le_dec (firstn 4 rest) ->
  sz <= p_msize p' /\ len rest < sz.
Proof.
  intros negot p stream its p' rest bad sz Hneg Hms Hfr Hbad H4 ->.
  eapply (frames_rest_waits negot); eauto.
Qed.

(* every delivered item is a well-framed message within msize *)
Theorem delivered_items_framed : forall negot p stream its p' rest bad it,
  negot_ok negot -> c_IOHDRSZ <= p_msize p ->
  frames negot true (S (length stream)) p stream = (its, p', rest, bad) ->
  In it its ->
  7 <= len (i_frame it) /\ le_dec (firstn 4 (i_frame it)) = len (i_frame it) /\ len (i_frame it) <= p_msize p.
Proof.
  intros negot p stream its p' rest bad it Hneg Hms Hfr Hin.
  eapply (frames_items_framed negot Hneg); eauto.
Qed.
