(* Separate extraction unit for Srv/Buf.v (its names step/run/init/label/st would clash with
   Srv/Conc.v and Srv/FidRef.v in one file). ExtrOcamlBasic only. *)
Require Extraction.
Require ExtrOcamlBasic.
From Coq Require Import List.
From V9 Require Import Srv.Buf.

Extraction Language OCaml.
Extraction "bufmodel.ml" Buf.step Buf.init Buf.fixed_cfg Buf.buf_of.
