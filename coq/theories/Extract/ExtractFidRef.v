(* Separate extraction unit for Srv/FidRef.v (its names step/run/init/label/st would
   clash with Srv/Conc.v in one file). ExtrOcamlBasic only. *)
Require Extraction.
Require ExtrOcamlBasic.
From Coq Require Import ZArith List.
From V9 Require Import Srv.FidRef.

Extraction Language OCaml.
Extraction "fidref.ml" FidRef.step FidRef.init FidRef.run FidRef.tlook.
