(* The only file with Extraction commands. ExtrOcamlBasic only: bool, option,
   unit, list, prod, sumbool, sumor mapped to OCaml's; nat stays Peano, N/Z/positive
   stay the extracted binary datatypes (no OCaml int anywhere in the model). *)
Require Extraction.
Require ExtrOcamlBasic.
From Coq Require Import NArith ZArith List.
From V9 Require Import Lib.GoSem Gen.Consts Log.Ring.

Extraction Language OCaml.
Extraction "model.ml"
  N.add N.mul N.sub N.div N.modulo N.eqb N.ltb N.leb N.of_nat N.to_nat
  Ring.run_ops Ring.ring_init Ring.filter_result_ok Ring.conc_result_ok Ring.conc_final_ok
  Ring.spec_filter.
