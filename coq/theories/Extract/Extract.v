(* The only file with Extraction commands. ExtrOcamlBasic only: bool, option,
   unit, list, prod, sumbool, sumor mapped to OCaml's; nat stays Peano, N/Z/positive
   stay the extracted binary datatypes (no OCaml int anywhere in the model). *)
Require Extraction.
Require ExtrOcamlBasic.
From Coq Require Import NArith ZArith List.
From V9 Require Import Lib.GoSem Lib.Bytes Gen.Consts Log.Ring Codec.Msg Codec.Pack Codec.Unpack Srv.Seq Srv.SeqSpec Recv.Recv Ufs.DirWindow Clnt.IO Clnt.Version Srv.Conc Clnt.Model Ufs.Path Ufs.Handlers.

Extraction Language OCaml.
Extraction "model.ml"
  N.add N.mul N.sub N.div N.modulo N.eqb N.ltb N.leb N.of_nat N.to_nat
  Ring.run_ops Ring.ring_init Ring.filter_result_ok Ring.conc_result_ok Ring.conc_final_ok
  Ring.spec_filter
  Msg.spec_encode Msg.spec_stat Msg.wf_msg Msg.wf_dir Msg.norm_msg Msg.norm_dir Msg.typ
  Pack.pack Pack.pack_dir Pack.set_tag Pack.rread_two_step
  Unpack.unpack Unpack.unpack_dir Unpack.unpack_alloc
  Seq.seq_step Seq.conn_init Seq.start_cfg Seq.tfid Seq.takes_fid Seq.is_tattach Seq.ver_u Seq.ver_p
  SeqSpec.spec_step SeqSpec.ospec_step SeqSpec.tspec_step SeqSpec.vget SeqSpec.rules_ok SeqSpec.fid_ok SeqSpec.is_valid
  Recv.srv_run Recv.clnt_run Recv.srv_frames Recv.clnt_frames
  DirWindow.dir_window DirWindow.listing DirWindow.readdir_chunks IO.frun IO.open_iounit Version.clnt_connect Version.clnt_version_request Version.twrite_frame_len Version.tread_count Version.rread_frame_len
  Path.attach_path Path.ufs_walk Path.create_path Path.rename_dest Path.symlink_ok Path.symlink_resolves Path.clean Path.split_slash Path.fwalk
  Handlers.dir2qidtype Handlers.dir2npmode Handlers.stat_mtime Handlers.stat_length Handlers.create_plan Handlers.wstat_plan Handlers.omode2uflags
  Conc.step Conc.run Conc.init Model.crun Model.cinit_n Model.cstep Model.live_tags
  Consts.c_Eunknownfid_text Consts.c_Einuse_text
  Consts.c_NOTAG Consts.c_NOFID Consts.c_NOUID Consts.c_IOHDRSZ.
