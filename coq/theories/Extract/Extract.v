(* The only file with Extraction commands. ExtrOcamlBasic only: bool, option,
   unit, list, prod, sumbool, sumor mapped to OCaml's; nat stays Peano, N/Z/positive
   stay the extracted binary datatypes (no OCaml int anywhere in the model). *)
Require Extraction.
Require ExtrOcamlBasic.
From Coq Require Import NArith ZArith List.
From V9 Require Import Lib.GoSem Lib.Bytes Gen.Consts Log.Ring Codec.Msg Codec.Pack Codec.Unpack.

Extraction Language OCaml.
Extraction "model.ml"
  N.add N.mul N.sub N.div N.modulo N.eqb N.ltb N.leb N.of_nat N.to_nat
  Ring.run_ops Ring.ring_init Ring.filter_result_ok Ring.conc_result_ok Ring.conc_final_ok
  Ring.spec_filter
  Msg.spec_encode Msg.spec_stat Msg.wf_msg Msg.wf_dir Msg.norm_msg Msg.norm_dir Msg.typ
  Pack.pack Pack.pack_dir Pack.set_tag Pack.rread_two_step
  Unpack.unpack Unpack.unpack_dir Unpack.unpack_alloc
  Consts.c_NOTAG Consts.c_NOFID Consts.c_NOUID Consts.c_IOHDRSZ.
