(* C03 - Exactly one correctly tagged reply per request under any concurrency.
   Property theorems only (each closed by [exact] of a lemma proved in Srv/Conc*.v, followed by Print Assumptions).
   All statements quantify over EVERY reachable state of the life-cycle LTS Srv/Conc.v: any number of requests,
   any interleaving of the receive, worker, responder and send steps, any behaviour of the implementation. *)
From Coq Require Import NArith List Bool PeanoNat.
From V9 Require Shape.ShapeLib Shape.PBuf Shape.POrder Shape.PFlush.
From V9 Require Race.Facts Shape.PLocks.
From V9 Require Srv.Buf Srv.BufProofs.
From V9 Require Import Lib.GoSem Gen.Consts Srv.Conc Srv.ConcProofs.
Import ListNotations.

(* at most one reply per request, however often and from wherever Respond is called (an extra answer produces no second reply) *)
Theorem C03_at_most_one_reply : forall c s r,
  reach c s -> on_wire s r + in_outq s r <= 1.
Proof. exact at_most_one_reply. Qed.
Print Assumptions C03_at_most_one_reply.

(* every reply carries the tag of a received request and a content that was packed for that request (no reply for a tag without a request) *)
Theorem C03_reply_tag_and_content : forall c s r tag v,
  reach c s -> In (r, tag, v) (wire s) ->
  exists q, getq s r = Some q /\ q_tag q = tag /\
            exists x, v = Some x /\ In x (q_packs q).
Proof. exact reply_tag_and_content. Qed.
Print Assumptions C03_reply_tag_and_content.

(* with a single answer the content is exactly what the implementation produced *)
Theorem C03_reply_content_exact : forall c s r tag v q x,
  reach c s -> In (r, tag, v) (wire s) -> getq s r = Some q -> q_packs q = [x] -> v = Some x.
Proof. exact reply_content_exact. Qed.
Print Assumptions C03_reply_content_exact.

(* at quiescence on an open connection every answered, not cancelled request has exactly one reply on the wire *)
Theorem C03_exactly_one_at_quiescence : forall c s r q,
  reach c s -> quiescent c s -> closed s = false ->
  getq s r = Some q -> q_flush q = false -> has_frame s r ->
  on_wire s r = 1.
Proof. exact exactly_one_at_quiescence. Qed.
Print Assumptions C03_exactly_one_at_quiescence.

(* Non-vacuity: a request answered twice, everything run to completion: one reply on the wire. *)
Example C03_nonvacuous :
  exists s, run (mkCfgC 0 true) init
    [LArrive 5 KOp; LWStart 0; LOpCall 0; LAnswer 0 77; LAnswer 0 78; LR 0; LR 1; LR 0; LR 0; LSend; LR 0; LR 0; LR 0; LOpReturn 0; LWTail 0]%N = Some s /\
  length (wire s) = 1 /\ map f_pc (F s) = [RDone; RDone].
Proof. eexists. vm_compute. repeat split. Qed.


(* ---- reply buffers recycled between requests (Srv/Buf.v: recv takes req.Rc from the pool or
   allocates it, RespondR* test-and-pack, Respond queues, send writes and recycles; any number of
   requests, any number of answers per request from any goroutine, any interleaving) ---- *)

(* every Write for request r hands the transport bytes that were packed for r *)
Theorem C03_wire_bytes_belong_to_request : forall s r c,
  Buf.reach Buf.fixed_cfg s -> In (r, c) (Buf.wire s) -> exists v, c = Some (r, v).
Proof. exact BufProofs.wire_bytes_belong_to_request. Qed.
Print Assumptions C03_wire_bytes_belong_to_request.

(* a buffer in use by a request is that request's own and holds nothing or bytes packed for it *)
Theorem C03_buffer_exclusive : forall s i b r,
  Buf.reach Buf.fixed_cfg s -> nth_error (Buf.bufs s) i = Some b ->
  (Buf.b_state b = Buf.BHeld r \/ Buf.b_state b = Buf.BQueued r \/ Buf.b_state b = Buf.BSending r) ->
  Buf.alook (Buf.rc s) r = Some i /\ (Buf.b_content b = None \/ exists v, Buf.b_content b = Some (r, v)).
Proof. exact BufProofs.buffer_exclusive. Qed.
Print Assumptions C03_buffer_exclusive.

(* the recycling pool holds free buffers only, each at most once *)
Theorem C03_pool_is_free : forall s i,
  Buf.reach Buf.fixed_cfg s -> In i (Buf.pool s) -> exists b, nth_error (Buf.bufs s) i = Some b /\ Buf.b_state b = Buf.BFree.
Proof. exact BufProofs.pool_is_free. Qed.
Print Assumptions C03_pool_is_free.

(* with the already-answered test and the pack as two steps (the code before the repair) a delayed
   second answer writes into a buffer that meanwhile belongs to another request; recycling before
   the Write (seeded change C03a) is refuted as well *)
Theorem C03_separate_test_and_pack_refuted : exists ls s r r' v,
  Buf.run Buf.current_cfg Buf.init ls = Some s /\ In (r, Some (r', v)) (Buf.wire s) /\ r <> r'.
Proof. exact BufProofs.separate_test_and_pack_refuted. Qed.
Print Assumptions C03_separate_test_and_pack_refuted.

Theorem C03_early_recycle_refuted : exists ls s r r' v,
  Buf.run Buf.early_recycle_cfg Buf.init ls = Some s /\ In (r, Some (r', v)) (Buf.wire s) /\ r <> r'.
Proof. exact BufProofs.early_recycle_refuted. Qed.
Print Assumptions C03_early_recycle_refuted.


(* ---- the models' structural parameters, read off the CURRENT source by the translator (Gen/Shape.v) ---- *)

(* in the source as it is now: RespondR* test-and-pack inside packReply's critical section, send recycles the
   buffer after the Write: the buffer theorem holds for the configuration the source has *)
Theorem C03_source_is_the_fixed_configuration : PBuf.buf_cfg_of_source = Buf.fixed_cfg.
Proof. exact PBuf.buf_cfg_is_fixed. Qed.
Print Assumptions C03_source_is_the_fixed_configuration.

Theorem C03_wire_bytes_belong_to_request_in_source : forall s r c,
  Buf.reach PBuf.buf_cfg_of_source s -> In (r, c) (Buf.wire s) -> exists v, c = Some (r, v).
Proof. exact PBuf.wire_bytes_belong_to_request_src. Qed.
Print Assumptions C03_wire_bytes_belong_to_request_in_source.

(* Respond marks, post-processes, queues the reply, and only then unlinks the request and starts the next of
   its tag group: the order of the frame's program counters in Srv/Conc.v (R1, R3, R4, R2, R5) *)
Theorem C03_source_respond_order : ShapeLib.respond_order = true.
Proof. exact POrder.respond_order_ok. Qed.
Print Assumptions C03_source_respond_order.

(* ---- a modelling assumption about the CURRENT source (Gen/LockFacts.v), re-checked on every run ---- *)
(* the steps the models treat as atomic are critical sections in the source: every access to a mutex-protected
   field (request lists and tag groups, flush chains, request status, the client's pending list and error) holds its mutex *)
Theorem C03_source_critical_sections : V9.Race.Facts.violations = [].
Proof. exact V9.Shape.PLocks.sites_comply_ok. Qed.
Print Assumptions C03_source_critical_sections.

(* the Rflush is packed before the Tflush is chained onto its target (it is answered later by a bare Respond) *)
Theorem C03_source_flush_packs_before_chaining : V9.Shape.ShapeLib.flush_chains_under_conn_lock = true.
Proof. exact V9.Shape.PFlush.flush_chains_under_conn_lock_ok. Qed.
Print Assumptions C03_source_flush_packs_before_chaining.
