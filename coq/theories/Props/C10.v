(* C10 - Client calls fail promptly, never hang, when the connection fails.
   Property theorems only (proved in Clnt/ClntProofs.v and Recv/RecvProofs.v). *)
From Coq Require Import NArith List Bool.
From V9 Require Shape.ShapeLib Shape.PClient.
From V9 Require Race.Facts Shape.PLocks.
From V9 Require Import Lib.GoSem Lib.Bytes Gen.Consts Clnt.Model Clnt.ClntProofs Recv.Recv Recv.RecvProofs.
Import ListNotations.

(* once the connection has failed, as long as some call has not returned the
   client can take a step by itself: nobody waits for a goroutine that is gone *)
Theorem C10_shutdown_progress : forall k s,
  1 <= k -> creach k s -> err s = true ->
  ((exists c x, getc s c = Some x /\ c_pc x <> CDone) \/ reader s <> RdEnd) ->
  exists l, c_internal l = true /\ cstep s l <> None.
Proof. exact shutdown_progress. Qed.
Print Assumptions C10_shutdown_progress.

(* ... and every such step strictly decreases a bound: no livelock *)
Theorem C10_shutdown_terminates : forall k s l s',
  creach k s -> c_internal l = true -> cstep s l = Some s' -> steps_left s' < steps_left s.
Proof. exact shutdown_terminates. Qed.
Print Assumptions C10_shutdown_terminates.

(* hence every outstanding and every later call returns *)
Theorem C10_all_calls_return : forall k s,
  1 <= k -> creach k s -> err s = true ->
  exists ls s', Forall (fun l => c_internal l = true) ls /\ crun s ls = Some s' /\
                (forall c x, getc s' c = Some x -> c_pc x = CDone) /\ reader s' = RdEnd.
Proof. exact all_calls_return. Qed.
Print Assumptions C10_all_calls_return.

(* later calls are refused with the error, without touching the transport *)
Theorem C10_later_calls_refused : forall s c s',
  err s = true -> cstep s (LLock c) = Some s' ->
  sent s' = sent s /\ lst s' = lst s /\ exists x, getc s' c = Some x /\ c_res x = Some RConnErr.
Proof. exact later_calls_refused. Qed.
Print Assumptions C10_later_calls_refused.

(* no call returns success unless its complete reply was received *)
Theorem C10_success_needs_whole_reply : forall k s c x f,
  creach k s -> getc s c = Some x -> c_res x = Some (ROk f) -> f < Model.frames s.
Proof. exact success_needs_whole_reply. Qed.
Print Assumptions C10_success_needs_whole_reply.

(* a reply completely received before the failure is delivered to its caller *)
Theorem C10_matched_result_stable : forall k s l s' r q res,
  creach k s -> cstep s l = Some s' -> nth_error (creqs s) r = Some q ->
  cr_result q = Some res -> res <> RConnErr ->
  exists q', nth_error (creqs s') r = Some q' /\ cr_result q' = Some res.
Proof. exact matched_result_stable. Qed.
Print Assumptions C10_matched_result_stable.

(* the receive loop turns garbage, oversize and undersize frames into a connection
   failure and never reads with an empty buffer (no nil error dereference) *)
Theorem C10_clnt_recv_safe : forall p segs s its its' p' rest bad,
  (c_IOHDRSZ <= p_msize p)%N -> Forall (fun sg => sg <> []) segs ->
  clnt_run p segs = (s, its) ->
  clnt_frames p (concat segs) = (its', p', rest, bad) ->
  its = its' /\ r_st s <> ReadEmpty /\ (bad = true <-> r_st s = ClosedBad).
Proof.
  intros p segs s its its' p' rest bad Hm Hs Hr Hf.
  unfold clnt_run in Hr. unfold clnt_frames in Hf.
  destruct (run_segmentation_invariant negot_none c_bufmul_clnt p segs negot_none_ok
              (ltac:(unfold c_bufmul_clnt; discriminate)) Hm Hs s its its' p' rest bad Hr Hf) as (A & B & C & _).
  auto.
Qed.
Print Assumptions C10_clnt_recv_safe.

(* Non-vacuity: a caller caught between linking its request and handing it over
   when the connection fails, another one already waiting: both return an error. *)
Example C10_nonvacuous :
  exists s, crun (cinit_n 40)
    [LNewCall false None; LNewCall false None; LAlloc 0; LAlloc 1; LLock 0; LLock 1; LHandoff 1; LFail; LClose; LClose;
     LHandoff 0; LDeliver; LTake 0; LDeliver; LTake 1; LClose; LFree 0; LFree 1]%N = Some s /\
    map c_res (callers s) = [Some RConnErr; Some RConnErr] /\ map c_pc (callers s) = [CDone; CDone] /\ reader s = RdEnd.
Proof. eexists. vm_compute. repeat split. Qed.


(* ---- structural parameters read off the CURRENT source (Gen/Shape.v): Rpcnb tests clnt.err and links under the
   client lock and hands over afterwards; send tests clnt.err and copies the packet under the lock before it
   writes; recv publishes the error before it closes done and tells the callers after; Rpc recycles the request
   only after it was told ---- *)
Theorem C10_source_failure_order : ShapeLib.client_failure_order = true.
Proof. exact PClient.client_failure_order_ok. Qed.
Print Assumptions C10_source_failure_order.


(* ---- a modelling assumption about the shape of the CURRENT source (Gen/Shape.v), re-checked on every run ---- *)
(* all four failure paths of the receive loop publish the error before done is closed; the done branch of the hand-over reports no error of its own *)
Theorem C10_source_failure_paths : ShapeLib.client_failure_paths = true.
Proof. exact PClient.client_failure_paths_ok. Qed.
Print Assumptions C10_source_failure_paths.

(* ---- a modelling assumption about the CURRENT source (Gen/LockFacts.v), re-checked on every run ---- *)
(* the steps the models treat as atomic are critical sections in the source: every access to a mutex-protected
   field (request lists and tag groups, flush chains, request status, the client's pending list and error) holds its mutex *)
Theorem C10_source_critical_sections : V9.Race.Facts.violations = [].
Proof. exact V9.Shape.PLocks.sites_comply_ok. Qed.
Print Assumptions C10_source_critical_sections.

(* a failed Write closes the transport: the model's LFail (the receive goroutine learns of the failure) is enabled by it *)
Theorem C10_source_send_closes_on_write_error : V9.Shape.ShapeLib.clnt_send_closes_on_write_error = true.
Proof. exact V9.Shape.PClient.clnt_send_closes_on_write_error_ok. Qed.
Print Assumptions C10_source_send_closes_on_write_error.
