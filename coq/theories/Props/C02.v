(* C02 - Decoding is total and bounded on arbitrary bytes.
   Property theorems only (proved in Codec/UnpackProofs.v). *)
From Coq Require Import NArith List Bool.
From V9 Require Import Lib.GoSem Lib.Bytes Gen.Consts Codec.Msg Codec.Unpack Codec.UnpackProofs.
Import ListNotations.
Local Open Scope N_scope.

(* for EVERY byte string (no length bound) and either dialect: never a panic *)
Theorem C02_unpack_no_panic : forall dotu buf, unpack dotu buf <> Panic /\ unpack dotu buf <> OutOfFuel.
Proof. exact unpack_no_panic. Qed.
Print Assumptions C02_unpack_no_panic.

Theorem C02_unpack_dir_no_panic : forall dotu buf, unpack_dir dotu buf <> Panic /\ unpack_dir dotu buf <> OutOfFuel.
Proof. exact unpack_dir_no_panic. Qed.
Print Assumptions C02_unpack_dir_no_panic.

(* on success: consumed length = size prefix, 7 <= n <= input length, defined type *)
Theorem C02_unpack_ok_shape : forall dotu buf t m n,
  unpack dotu buf = Ok (t, m, n) ->
  7 <= n /\ n <= len buf /\ n = le_dec (firstn 4 buf) /\
  typ m = le_dec (firstn 1 (skipn 4 buf)) /\
  c_Tversion <= typ m /\ typ m < c_Tlast /\ typ m <> c_Terror /\
  t = le_dec (firstn 2 (skipn 5 buf)).
Proof. exact unpack_ok_shape. Qed.
Print Assumptions C02_unpack_ok_shape.

(* the result does not depend on bytes beyond the declared message size *)
Theorem C02_unpack_prefix_only : forall dotu buf,
  le_dec (firstn 4 buf) <= len buf ->
  unpack dotu buf = unpack dotu (firstn (N.to_nat (le_dec (firstn 4 buf))) buf).
Proof. exact unpack_prefix_only. Qed.
Print Assumptions C02_unpack_prefix_only.

(* a count or length field cannot buy memory the packet does not pay for *)
Theorem C02_unpack_alloc_linear : forall dotu buf, unpack_alloc dotu buf <= 8 * len buf.
Proof. exact unpack_alloc_linear. Qed.
Print Assumptions C02_unpack_alloc_linear.

(* every decoded field is within its wire type and every variable-length field
   came from inside the packet (strings at most 65535 bytes, counts 16 bit) *)
Theorem C02_unpack_wf : forall dotu buf t m n,
  all_bytes buf = true -> unpack dotu buf = Ok (t, m, n) ->
  wf_fields dotu m = true /\ norm_msg dotu m = m /\ wf_u16 t = true.
Proof. exact unpack_wf. Qed.
Print Assumptions C02_unpack_wf.

(* re-encoding the decoded fields gives a packet that decodes to the same fields *)
Theorem C02_reencode_stable : forall dotu buf t m n,
  all_bytes buf = true -> unpack dotu buf = Ok (t, m, n) -> n <= u32max ->
  unpack dotu (spec_encode dotu t m) = Ok (t, m, len (spec_encode dotu t m)).
Proof.
  intros dotu buf t m n Hb Hu Hn.
  exact (reencode_stable dotu buf t m n Hb Hu (reencode_not_longer_corrected dotu buf t m n Hb Hu Hn)).
Qed.
Print Assumptions C02_reencode_stable.

(* Non-vacuity and the historical failures: the frames that used to panic are now errors. *)
Example C02_short_frames_are_errors :
  (* 7-byte Tclunk, 16-byte Tread, short Rwalk announcing 3 qids *)
  forallb (fun b => match unpack true b, unpack false b with Err _, Err _ => true | _, _ => false end)
    [[7;0;0;0;120;1;0]; [16;0;0;0;116;1;0;1;0;0;0;0;0;0;0;0]; [9;0;0;0;111;1;0;3;0]] = true.
Proof. vm_compute. reflexivity. Qed.

Example C02_decodes_something :
  exists t m n, unpack false [11;0;0;0;120;5;0;9;0;0;0] = Ok (t, m, n) /\ m = Tclunk_ 9.
Proof. eexists _, _, _. vm_compute. split; reflexivity. Qed.
