(* C09 - Client calls get their own reply, with distinct and recycled tags.
   Property theorems only (proved in Clnt/ClntProofs.v). [k] is the size of the
   tag pool; the real client has k = 65535 (cinit = cinit_n (N.to_nat c_NOTAG)). *)
From Coq Require Import NArith List Bool.
From V9 Require Shape.ShapeLib Shape.PViews Shape.PClient Recv.Views.
From V9 Require Race.Facts Shape.PLocks.
From V9 Require Import Lib.GoSem Gen.Consts Clnt.Model Clnt.ClntProofs.
Import ListNotations.

(* for any number of callers and any schedule: tags of requests between ReqAlloc
   and ReqFree, of cached Req objects and of the pool are pairwise distinct *)
Theorem C09_tags_distinct : forall k s,
  creach k s -> NoDup (live_tags s ++ cache s ++ pool s).
Proof. exact tags_distinct. Qed.
Print Assumptions C09_tags_distinct.

(* tags and request slots are recycled: none is ever lost *)
Theorem C09_tag_conservation : forall k s,
  creach k s -> length (live_tags s) + length (cache s) + length (pool s) = k.
Proof. exact tag_conservation. Qed.
Print Assumptions C09_tag_conservation.

(* so an unbounded number of calls can be made: a tag is available whenever fewer
   than k calls are outstanding *)
Theorem C09_alloc_enabled : forall k s c x,
  creach k s -> getc s c = Some x -> c_pc x = CAlloc ->
  length (live_tags s) < k -> cstep s (LAlloc c) <> None.
Proof. exact alloc_enabled. Qed.
Print Assumptions C09_alloc_enabled.

(* each call returns the reply to its own request: the frame matched with it,
   carrying its wire tag, received after the request was linked *)
Theorem C09_own_reply : forall k s c x res f,
  creach k s -> getc s c = Some x -> c_res x = Some res -> is_frame_result res f ->
  exists r q, c_req x = Some r /\ nth_error (creqs s) r = Some q /\
              cr_result q = Some res /\ cr_ftag q = Some (cr_wire q) /\ cr_linked q = true /\ f < frames s.
Proof. exact own_reply. Qed.
Print Assumptions C09_own_reply.

(* ... and never another call's reply: a frame goes to at most one request *)
Theorem C09_frame_to_one_request : forall k s r1 r2 q1 q2 res1 res2 f,
  creach k s -> nth_error (creqs s) r1 = Some q1 -> nth_error (creqs s) r2 = Some q2 ->
  cr_result q1 = Some res1 -> cr_result q2 = Some res2 ->
  is_frame_result res1 f -> is_frame_result res2 f -> r1 = r2.
Proof. exact frame_to_one_request. Qed.
Print Assumptions C09_frame_to_one_request.

(* Rerror -> error with the server's text and number; wrong type -> error; matching type -> success *)
Theorem C09_error_mapping : forall s tag kd s' r,
  cstep s (LRecvFrame tag kd) = Some s' -> reader s' = RdDeliver r ->
  exists q, nth_error (creqs s') r = Some q /\
            cr_result q = Some (match kd with KMatch => ROk (frames s) | KRerror => RRerr (frames s) | KOther => RInvalid (frames s) end).
Proof. exact error_mapping. Qed.
Print Assumptions C09_error_mapping.

(* with the pipelined Tag interface, requests sharing a tag complete in the order issued *)
Theorem C09_shared_tag_fifo : forall s tag kd s' r,
  cstep s (LRecvFrame tag kd) = Some s' -> reader s' = RdDeliver r ->
  exists pre post q, lst s = pre ++ r :: post /\ nth_error (creqs s) r = Some q /\ cr_wire q = tag /\
    forall r' q', In r' pre -> nth_error (creqs s) r' = Some q' -> cr_wire q' <> tag.
Proof. exact shared_tag_fifo. Qed.
Print Assumptions C09_shared_tag_fifo.

(* Non-vacuity: two calls answered in reverse order (one with Rerror), then a third call reuses a cached tag. *)
Example C09_nonvacuous :
  exists s, crun (cinit_n 40)
    [LNewCall false None; LNewCall false None; LAlloc 0; LAlloc 1; LLock 0; LLock 1; LHandoff 1; LHandoff 0;
     LRecvFrame 1 KMatch; LDeliver; LTake 1; LRecvFrame 0 KRerror; LDeliver; LTake 0; LFree 0; LFree 1;
     LNewCall false None; LAlloc 2]%N = Some s /\
    map c_res (callers s) = [Some (RRerr 1); Some (ROk 0); None] /\ cache s = [1%N] /\ length (pool s) = 38.
Proof. eexists. vm_compute. repeat split. Qed.


(* ---- the receive buffer as memory (Recv/Views.v): Unpack does not copy, what is handed on keeps slices into
   the receive buffer. For any reads, deliveries and reallocations no byte that arrives later overwrites a
   delivered message; compacting inside the buffer (seeded changes C09c, C13a, C14a) is refuted; and in the
   CURRENT source every copy in a receive loop goes into a buffer made in the statement before, and the buffer variable is only advanced over itself or replaced by such a buffer ---- *)
Theorem C09_delivered_messages_never_overwritten : forall ls c s,
  Views.run false (Views.init c) ls = Some s -> Views.clobbered s = false.
Proof. exact Views.delivered_messages_never_overwritten. Qed.
Print Assumptions C09_delivered_messages_never_overwritten.

Theorem C09_compaction_refuted : exists ls s, Views.run true (Views.init 64) ls = Some s /\ Views.clobbered s = true.
Proof. exact Views.compaction_refuted. Qed.
Print Assumptions C09_compaction_refuted.

Theorem C09_source_never_compacts_a_receive_buffer : ShapeLib.recv_never_compacts = true.
Proof. exact PViews.recv_never_compacts_ok. Qed.
Print Assumptions C09_source_never_compacts_a_receive_buffer.

(* ---- a modelling assumption about the CURRENT source (Gen/LockFacts.v), re-checked on every run ---- *)
(* the steps the models treat as atomic are critical sections in the source: every access to a mutex-protected
   field (request lists and tag groups, flush chains, request status, the client's pending list and error) holds its mutex *)
Theorem C09_source_critical_sections : V9.Race.Facts.violations = [].
Proof. exact V9.Shape.PLocks.sites_comply_ok. Qed.
Print Assumptions C09_source_critical_sections.

(* a recycled request slot carries nothing of its previous call when Rpcnb links it again *)
Theorem C09_source_reqfree_clears_slot : V9.Shape.ShapeLib.reqfree_clears_slot = true.
Proof. exact V9.Shape.PClient.reqfree_clears_slot_ok. Qed.
Print Assumptions C09_source_reqfree_clears_slot.
