(* C13 - Behaviour depends on the byte stream, not on how it is segmented.
   Property theorems only (proved in Recv/RecvProofs.v). *)
From Coq Require Import NArith List Bool.
From V9 Require Shape.ShapeLib Shape.PRecv Shape.PViews Recv.Views.
From V9 Require Import Lib.GoSem Lib.Bytes Gen.Consts Codec.Msg Codec.Unpack Recv.Recv Recv.RecvProofs.
Import ListNotations.
Local Open Scope N_scope.

(* For ANY cutting of the stream into transport reads the receive loop (buffer
   bookkeeping, reallocation, re-reading msize/dialect after a synchronous Tversion)
   delivers exactly the frames of the framing specification, which is a function
   of the concatenated stream only; it detects a bad frame iff the specification
   does; it never calls Read with an empty slice. *)
Theorem C13_run_segmentation_invariant : forall negot bufmul p segs,
  negot_ok negot -> 1 <= bufmul -> c_IOHDRSZ <= p_msize p ->
  Forall (fun s => s <> []) segs ->
  forall s its its' p' rest bad,
  run negot true bufmul (S (length (concat segs) + length segs)) (rinit bufmul p) segs = (s, its) ->
  frames negot true (S (length (concat segs))) p (concat segs) = (its', p', rest, bad) ->
  its = its' /\ r_st s <> ReadEmpty /\
  (bad = true <-> r_st s = ClosedBad) /\
  (bad = false -> r_acc s = rest /\ r_par s = p').
Proof. exact run_segmentation_invariant. Qed.
Print Assumptions C13_run_segmentation_invariant.

(* server loop: any two segmentations of one stream are indistinguishable *)
Theorem C13_srv_any_two_segmentations : forall srv_dotu p segs1 segs2,
  c_IOHDRSZ <= p_msize p ->
  Forall (fun s => s <> []) segs1 -> Forall (fun s => s <> []) segs2 ->
  concat segs1 = concat segs2 ->
  snd (srv_run srv_dotu p segs1) = snd (srv_run srv_dotu p segs2) /\
  r_st (fst (srv_run srv_dotu p segs1)) = r_st (fst (srv_run srv_dotu p segs2)).
Proof. exact srv_any_two_segmentations. Qed.
Print Assumptions C13_srv_any_two_segmentations.

(* client loop, symmetrically *)
Theorem C13_clnt_any_two_segmentations : forall p segs1 segs2,
  c_IOHDRSZ <= p_msize p ->
  Forall (fun s => s <> []) segs1 -> Forall (fun s => s <> []) segs2 ->
  concat segs1 = concat segs2 ->
  snd (clnt_run p segs1) = snd (clnt_run p segs2) /\
  r_st (fst (clnt_run p segs1)) = r_st (fst (clnt_run p segs2)).
Proof. exact clnt_any_two_segmentations. Qed.
Print Assumptions C13_clnt_any_two_segmentations.

Theorem C13_buffer_bounded : forall negot bufmul p segs s its,
  negot_ok negot -> 1 <= bufmul -> c_IOHDRSZ <= p_msize p ->
  run negot true bufmul (S (length (concat segs) + length segs)) (rinit bufmul p) segs = (s, its) ->
  r_cap s <= bufmul * p_msize p /\ len (r_acc s) <= bufmul * p_msize p.
Proof. exact buffer_bounded. Qed.
Print Assumptions C13_buffer_bounded.

Theorem C13_delivered_items_framed : forall negot p stream its p' rest bad it,
  negot_ok negot -> c_IOHDRSZ <= p_msize p ->
  frames negot true (S (length stream)) p stream = (its, p', rest, bad) ->
  In it its ->
  7 <= len (i_frame it) /\ le_dec (firstn 4 (i_frame it)) = len (i_frame it) /\ len (i_frame it) <= p_msize p.
Proof. exact delivered_items_framed. Qed.
Print Assumptions C13_delivered_items_framed.

(* Non-vacuity: a Tversion lowering msize followed by two requests, cut inside the
   size prefix and one byte at a time, delivers the same three messages. *)
Example C13_nonvacuous :
  let stream := [19;0;0;0;100;255;255;64;0;0;0;6;0;57;80;50;48;48;48] ++ [11;0;0;0;120;1;0;9;0;0;0] ++ [11;0;0;0;124;2;0;7;0;0;0] in
  let p := mkParams 8192 true in
  let one := map (fun b => [b]) stream in
  let two := [firstn 2 stream; skipn 2 stream] in
  map i_msg (snd (srv_run true p one)) = [Tversion_ 64 [57;80;50;48;48;48]; Tclunk_ 9; Tstat_ 7] /\
  snd (srv_run true p one) = snd (srv_run true p two) /\
  p_msize (r_par (fst (srv_run true p one))) = 64.
Proof. vm_compute. repeat split. Qed.


(* ---- a modelling assumption about the shape of the CURRENT source (Gen/Shape.v), re-checked on every run ---- *)
(* both receive loops read the dialect from the connection at every Unpack (parameters re-read after a synchronous Tversion) *)
Theorem C13_source_rereads_the_dialect_for_every_message : ShapeLib.recv_rereads_dialect = true.
Proof. exact PRecv.recv_rereads_dialect_ok. Qed.
Print Assumptions C13_source_rereads_the_dialect_for_every_message.


(* ---- the receive buffer as memory (Recv/Views.v): Unpack does not copy, what is handed on keeps slices into
   the receive buffer. For any reads, deliveries and reallocations no byte that arrives later overwrites a
   delivered message; compacting inside the buffer (seeded changes C09c, C13a, C14a) is refuted; and in the
   CURRENT source every copy in a receive loop goes into a buffer made in the statement before, and the buffer variable is only advanced over itself or replaced by such a buffer ---- *)
Theorem C13_delivered_messages_never_overwritten : forall ls c s,
  Views.run false (Views.init c) ls = Some s -> Views.clobbered s = false.
Proof. exact Views.delivered_messages_never_overwritten. Qed.
Print Assumptions C13_delivered_messages_never_overwritten.

Theorem C13_compaction_refuted : exists ls s, Views.run true (Views.init 64) ls = Some s /\ Views.clobbered s = true.
Proof. exact Views.compaction_refuted. Qed.
Print Assumptions C13_compaction_refuted.

Theorem C13_source_never_compacts_a_receive_buffer : ShapeLib.recv_never_compacts = true.
Proof. exact PViews.recv_never_compacts_ok. Qed.
Print Assumptions C13_source_never_compacts_a_receive_buffer.

(* the announced size of every frame is compared with the negotiated msize in both receive loops *)
Theorem C13_source_size_checked_against_msize : V9.Shape.ShapeLib.size_checked_against_msize = true.
Proof. exact V9.Shape.PRecv.size_checked_against_msize_ok. Qed.
Print Assumptions C13_source_size_checked_against_msize.
