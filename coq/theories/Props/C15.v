(* C15 - Directory reads return whole entries, each exactly once.
   Property theorems only (proved in Ufs/DirProofs.v). *)
From Coq Require Import ZArith List Bool.
From V9 Require Shape.ShapeLib Shape.PUfs15.
From V9 Require Import Lib.GoSem Ufs.DirWindow Ufs.DirProofs.
Import ListNotations.
Local Open Scope Z_scope.

(* each successful reply is a concatenation of whole consecutive entries, at most
   count bytes, non-empty while entries remain *)
Theorem C15_dir_reply_whole : forall ends off cnt n,
  wf_ends ends -> 0 <= off -> 0 <= cnt -> dir_window ends off cnt = DOk n ->
  0 <= n /\ n <= cnt /\
  (off <= total_of ends -> boundary ends off /\ boundary ends (off + n)) /\
  (off < total_of ends -> 0 < n) /\
  (total_of ends <= off -> n = 0).
Proof. exact dir_reply_whole. Qed.
Print Assumptions C15_dir_reply_whole.

(* following the offset rule with any counts >= the largest entry returns every
   entry exactly once, in order, then an empty reply *)
Theorem C15_dir_listing_complete : forall ends counts,
  wf_ends ends -> Forall (fun c => max_size ends <= c) counts ->
  (length ends < length counts)%nat ->
  exists chunks, listing ends 0 counts = (chunks, DOk 0) /\ covers ends 0 (total_of ends) chunks.
Proof. exact dir_listing_complete. Qed.
Print Assumptions C15_dir_listing_complete.

(* a count too small for the next entry yields an error, never a truncated or empty reply *)
Theorem C15_dir_small_count_errors : forall ends off cnt,
  wf_ends ends -> boundary ends off -> off < total_of ends -> 0 <= cnt ->
  cnt < next_size 0 ends off ->
  dir_window ends off cnt = DTooSmall.
Proof. exact dir_small_count_errors. Qed.
Print Assumptions C15_dir_small_count_errors.

Theorem C15_dir_enough_count_progress : forall ends off cnt,
  wf_ends ends -> boundary ends off -> off < total_of ends ->
  next_size 0 ends off <= cnt ->
  exists n, dir_window ends off cnt = DOk n /\ next_size 0 ends off <= n.
Proof. exact dir_enough_count_progress. Qed.
Print Assumptions C15_dir_enough_count_progress.

(* the client's Readdir(0) returns the complete set for any directory size *)
Theorem C15_readdir_all : forall ends iounit,
  wf_ends ends -> max_size ends <= iounit ->
  exists chunks, readdir_chunks ends iounit = (chunks, DOk 0) /\ covers ends 0 (total_of ends) chunks.
Proof. exact readdir_all. Qed.
Print Assumptions C15_readdir_all.

(* offsets off the rule: refused or empty, never a panic (used by C06) *)
Theorem C15_dir_bad_offset : forall ends off cnt,
  wf_ends ends -> 0 < off -> off <= total_of ends -> ~ boundary ends off -> 0 <= cnt ->
  dir_window ends off cnt = DBadOffset.
Proof. exact dir_bad_offset. Qed.
Print Assumptions C15_dir_bad_offset.

Theorem C15_dir_window_no_panic : forall ends off cnt,
  wf_ends ends -> 0 <= off -> 0 <= cnt -> dir_window ends off cnt <> DPanic.
Proof. exact dir_window_no_panic. Qed.
Print Assumptions C15_dir_window_no_panic.

Example C15_nonvacuous :
  let e := ends_of 0 [50; 60; 49; 70] in
  wf_ends e /\ listing e 0 [70; 70; 70; 70; 70] = ([(0, 50); (50, 60); (110, 49); (159, 70)], DOk 0) /\
  dir_window e 0 49 = DTooSmall /\ dir_window e 51 100 = DBadOffset.
Proof.
  split.
  - exists [50; 60; 49; 70]. split; [reflexivity|]. repeat constructor.
  - vm_compute. repeat split.
Qed.


(* ---- a modelling assumption about the shape of the CURRENT source (Gen/Shape.v), re-checked on every run ---- *)
(* directory records are packed in the connection's dialect; the two listing tables are reset together *)
Theorem C15_source_directory_records : ShapeLib.ufs_dir_records = true.
Proof. exact PUfs15.ufs_dir_records_ok. Qed.
Print Assumptions C15_source_directory_records.
