(* C20 - The message logger keeps the most recent entries in order.
   Property theorems only; each is closed by [exact] of a lemma proved in
   Log/RingProofs.v and followed by Print Assumptions. *)
From Coq Require Import NArith List PeanoNat.
From V9 Require Import Lib.GoSem Gen.Consts Log.Ring Log.RingProofs.
From V9 Require Shape.ShapeLib Shape.PLog.
Import ListNotations.

(* For every capacity N >= 1, every sequence of logged entries and every filter:
   Filter (the index-arithmetic model of doLog's two passes) returns exactly the
   matching entries among the last min(k,N) logged, in order. Result is [Ok]:
   the collection loop terminates within one turn and never indexes out of range. *)
Theorem C20_filter_is_last_N : forall cap logged ow ty,
  1 <= cap ->
  ring_filter (fold_left log_step logged (ring_init cap)) ow ty
  = Ok (spec_filter cap logged ow ty).
Proof. exact filter_is_last_N. Qed.
Print Assumptions C20_filter_is_last_N.

(* Any interleaved sequence of Log and Filter operations behaves like the
   reference window. *)
Theorem C20_run_ops_spec : forall cap ops,
  1 <= cap -> run_ops (ring_init cap) ops = spec_run cap [] ops.
Proof. exact run_ops_spec. Qed.
Print Assumptions C20_run_ops_spec.

(* The window's clauses: at most N, only matching logged entries, a suffix of
   what was logged (so nothing between two returned entries is skipped). *)
Theorem C20_window_clauses : forall cap logged ow ty,
  length (spec_filter cap logged ow ty) <= cap /\
  (forall e, In e (spec_filter cap logged ow ty) -> matches ow ty e = true /\ In e logged) /\
  (exists pre, logged = pre ++ window cap logged).
Proof.
  intros. split; [exact (spec_filter_length cap logged ow ty)|].
  split; [exact (spec_filter_matches cap logged ow ty)|exact (window_suffix cap logged)].
Qed.
Print Assumptions C20_window_clauses.

(* Any number of producers, any interleaving. *)
Theorem C20_processed_is_fair_merge : forall cap todo0 s,
  1 <= cap -> lreach cap todo0 s ->
  exists consumed,
    length consumed = length todo0 /\
    (forall p c t, nth_error consumed p = Some c -> nth_error (l_todo s) p = Some t ->
                   nth_error todo0 p = Some (c ++ t)) /\
    Merge consumed (l_processed s ++ l_chan s).
Proof. exact processed_is_fair_merge. Qed.
Print Assumptions C20_processed_is_fair_merge.

Theorem C20_filter_results_are_windows : forall cap todo0 s r,
  1 <= cap -> lreach cap todo0 s -> In r (l_results s) ->
  exists n ow ty, r = spec_filter cap (firstn n (l_processed s)) ow ty.
Proof. exact filter_results_are_windows. Qed.
Print Assumptions C20_filter_results_are_windows.

Theorem C20_filter_converges : forall cap todo0 s ow ty,
  1 <= cap -> lreach cap todo0 s -> l_chan s = [] ->
  ring_filter (l_ring s) ow ty = Ok (spec_filter cap (l_processed s) ow ty).
Proof. exact filter_converges. Qed.
Print Assumptions C20_filter_converges.

Theorem C20_logger_never_stuck : forall cap todo0 s,
  1 <= cap -> lreach cap todo0 s ->
  (forall ow ty, lstep s (LbFilter ow ty) <> None) /\
  (l_chan s <> [] -> lstep s LbRecv <> None) /\
  (forall p e rest, nth_error (l_todo s) p = Some (e :: rest) ->
                    lstep s (LbSend p) <> None \/ lstep s LbRecv <> None).
Proof. exact logger_never_stuck. Qed.
Print Assumptions C20_logger_never_stuck.

(* Non-vacuity: a capacity-3 ring after 5 entries (it has wrapped), filtered. *)
Example C20_nonvacuous :
  let es := map (fun i => mkEntry i (N.modulo i 2) 1) [1;2;3;4;5]%N in
  ring_filter (fold_left log_step es (ring_init 3)) (Some 1%N) 0%N
  = Ok [mkEntry 3 1 1; mkEntry 5 1 1]%N.
Proof. vm_compute. reflexivity. Qed.

(* Non-vacuity of the LTS theorems: a reachable state with two producers, a
   queued entry, a processed entry and a Filter result. *)
Example C20_lts_nonvacuous :
  exists s, lrun (lsys_init 2 [[mkEntry 1 0 1; mkEntry 2 0 1]; [mkEntry 3 1 1]]%N)
                 [LbSend 0; LbSend 1; LbRecv; LbFilter None 0%N; LbSend 0] = Some s
            /\ l_processed s = [mkEntry 1 0 1]%N /\ length (l_chan s) = 2
            /\ l_results s = [[mkEntry 1 0 1]]%N.
Proof. eexists. vm_compute. repeat split. Qed.

(* ---- a modelling assumption about the shape of the CURRENT source (Gen/Shape.v), re-checked on every run ---- *)
(* the producer / channel / logger LTS of Log/Ring.v: every Filter call has a reply channel of its own, the ring is
   touched by the logger goroutine only *)
Theorem C20_source_logger_shape : V9.Shape.ShapeLib.logger_shape = true.
Proof. exact V9.Shape.PLog.logger_shape_ok. Qed.
Print Assumptions C20_source_logger_shape.
