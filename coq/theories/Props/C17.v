(* C17 - Mutations through Ufs equal the corresponding POSIX operations.
   Property theorems only (each closed by [exact] of a lemma proved elsewhere, followed by Print Assumptions). *)
From Coq Require Import NArith List Bool.
From V9 Require Shape.ShapeLib Shape.PUfs17.
From V9 Require Import Lib.GoSem Lib.Bytes Gen.Consts Ufs.Path Ufs.Handlers Ufs.UfsProofs.
Import ListNotations.
Local Open Scope N_scope.

(* all 256 open modes map to the access mode and O_TRUNC the statement lists *)
Theorem C17_omode_flags_all : forall m, m < 256 -> omode2uflags m = spec_flags m.
Proof. exact omode_flags_all. Qed.
Print Assumptions C17_omode_flags_all.

(* a create issues exactly the one corresponding POSIX operation (mkdir / symlink / link / open(O_CREAT)) and nothing else that could change the tree *)
Theorem C17_create_plan_is_spec : forall dotu dirpath name perm mode ext linksrc ops,
  mode < 256 ->
  (has_bit_n perm c_DMDIR = true -> mode = c_OREAD) ->
  has_bit_n perm c_DMNAMEDPIPE = false ->
  create_plan dotu dirpath name perm mode ext linksrc = CPlan ops ->
  filter mutating ops = match create_spec dotu dirpath name perm mode ext linksrc with Some o => [o] | None => [] end.
Proof. exact create_plan_is_spec. Qed.
Print Assumptions C17_create_plan_is_spec.

(* a wstat with every field at its don't-touch value does nothing *)
Theorem C17_wstat_nothing : forall dotu root path,
  wstat_plan dotu root path (mkWstat ones32 c_NOUID c_NOUID [] ones64 ones32 ones32) = CPlan [].
Proof. exact wstat_nothing. Qed.
Print Assumptions C17_wstat_nothing.

(* rename targets are confined and the rename acts on the fid's object *)
Theorem C17_wstat_rename_confined : forall dotu root path w ops p d,
  wstat_plan dotu root path w = CPlan ops -> In (SRename p d) ops ->
  p = path /\ inside (clean root) d = true.
Proof. exact wstat_rename_confined. Qed.
Print Assumptions C17_wstat_rename_confined.

(* after a rename the fid refers to the renamed object: truncate acts on the new path *)
Theorem C17_wstat_follows_rename : forall dotu root path w ops d,
  w_name w <> [] -> rename_dest root path (w_name w) = Some d ->
  wstat_plan dotu root path w = CPlan ops ->
  (w_length w <> ones64 -> In (STruncate d (w_length w)) ops) /\
  (forall p len, In (STruncate p len) ops -> p = d).
Proof. exact wstat_follows_rename. Qed.
Print Assumptions C17_wstat_follows_rename.

Example C17_nonvacuous :
  create_plan true [[114]] [110] (N.lor c_DMDIR 493) 0 [] None = CPlan [SMkdir [[114];[110]] 493; SOpen [[114];[110]] RDONLY false] /\
  create_plan true [[114]] [110] (N.lor c_DMSYMLINK 511) 16 [102] None = CPlan [SSymlink [102] [[114];[110]]].
Proof. vm_compute. split; reflexivity. Qed.


(* ---- a modelling assumption about the shape of the CURRENT source (Gen/Shape.v), re-checked on every run ---- *)
(* toError unwraps the failing call's error with errors.As *)
Theorem C17_source_reports_errno : ShapeLib.ufs_reports_errno = true.
Proof. exact PUfs17.ufs_reports_errno_ok. Qed.
Print Assumptions C17_source_reports_errno.
