(* C17 - Mutations through Ufs equal the corresponding POSIX operations.
   Property theorems only (each closed by [exact] of a lemma proved elsewhere, followed by Print Assumptions). *)
From Coq Require Import NArith List Bool.
From V9 Require Shape.ShapeLib Shape.PUfs17.
From V9 Require Import Lib.GoSem Lib.Bytes Gen.Consts Ufs.Path Ufs.Handlers Ufs.UfsProofs Ufs.WstatExact.
Import ListNotations.
Local Open Scope N_scope.

(* all 256 open modes map to the access mode and O_TRUNC the statement lists *)
Theorem C17_omode_flags_all : forall m, m < 256 -> omode2uflags m = spec_flags m.
Proof. exact omode_flags_all. Qed.
Print Assumptions C17_omode_flags_all.

(* a create issues exactly the one corresponding POSIX operation (mkdir / symlink / link / open(O_CREAT)) and nothing else that could change the tree *)
Theorem C17_create_plan_is_spec : forall dotu dirpath name perm mode ext linksrc ops,
  mode < 256 ->
  (has_bit_n perm c_DMDIR = true -> mode = c_OREAD) ->
  has_bit_n perm c_DMNAMEDPIPE = false ->
  create_plan dotu dirpath name perm mode ext linksrc = CPlan ops ->
  filter mutating ops = match create_spec dotu dirpath name perm mode ext linksrc with Some o => [o] | None => [] end.
Proof. exact create_plan_is_spec. Qed.
Print Assumptions C17_create_plan_is_spec.

(* a wstat with every field at its don't-touch value does nothing *)
Theorem C17_wstat_nothing : forall dotu root path,
  wstat_plan dotu root path (mkWstat ones32 c_NOUID c_NOUID [] ones64 ones32 ones32) = CPlan [].
Proof. exact wstat_nothing. Qed.
Print Assumptions C17_wstat_nothing.

(* rename targets are confined and the rename acts on the fid's object *)
Theorem C17_wstat_rename_confined : forall dotu root path w ops p d,
  wstat_plan dotu root path w = CPlan ops -> In (SRename p d) ops ->
  p = path /\ inside (clean root) d = true.
Proof. exact wstat_rename_confined. Qed.
Print Assumptions C17_wstat_rename_confined.

(* after a rename the fid refers to the renamed object: truncate acts on the new path *)
Theorem C17_wstat_follows_rename : forall dotu root path w ops d,
  w_name w <> [] -> rename_dest root path (w_name w) = Some d ->
  wstat_plan dotu root path w = CPlan ops ->
  (w_length w <> ones64 -> In (STruncate d (w_length w)) ops) /\
  (forall p len, In (STruncate p len) ops -> p = d).
Proof. exact wstat_follows_rename. Qed.
Print Assumptions C17_wstat_follows_rename.

(* ---- "and changes nothing else": a Twstat, read field by field (Ufs/WstatExact.v) ---- *)
(* a Twstat issues nothing but chmod / chown / rename / truncate / chtimes: no create, open, link or remove *)
Theorem C17_wstat_only_metadata : forall dotu root path w ops o,
  wstat_plan dotu root path w = CPlan ops -> In o ops ->
  is_chmod o || is_chown o || is_rename o || is_trunc o || is_times o = true.
Proof. exact wstat_only_metadata. Qed.
Print Assumptions C17_wstat_only_metadata.

(* ... each at most once, in the order chmod, chown, rename, truncate, chtimes *)
Theorem C17_wstat_order : forall dotu root path w ops,
  wstat_plan dotu root path w = CPlan ops ->
  (length ops <= 5)%nat /\
  exists a b c d e, ops = a ++ b ++ c ++ d ++ e /\
    forallb is_chmod a = true /\ forallb is_chown b = true /\ forallb is_rename c = true /\
    forallb is_trunc d = true /\ forallb is_times e = true.
Proof. intros; split; [eapply wstat_at_most_five | eapply wstat_order]; eassumption. Qed.
Print Assumptions C17_wstat_order.

(* chmod iff a mode is given, on the fid's object, with the requested permission bits *)
Theorem C17_wstat_chmod_exact : forall dotu root path w ops,
  wstat_plan dotu root path w = CPlan ops ->
  (forall p m, In (SChmod p m) ops ->
     p = path /\ w_mode w <> ones32 /\ N.land m 511 = N.land (w_mode w) 511) /\
  (w_mode w <> ones32 -> exists m, In (SChmod path m) ops).
Proof. exact wstat_chmod_exact. Qed.
Print Assumptions C17_wstat_chmod_exact.

(* chown only in 9P2000.u and only when a numeric id is given *)
Theorem C17_wstat_chown_exact : forall dotu root path w ops p u g,
  wstat_plan dotu root path w = CPlan ops -> In (SChown p u g) ops ->
  dotu = true /\ p = path /\ u = w_uidnum w /\ g = w_gidnum w /\
  (w_uidnum w <> c_NOUID \/ w_gidnum w <> c_NOUID).
Proof. exact wstat_chown_exact. Qed.
Print Assumptions C17_wstat_chown_exact.

(* truncate iff a length is given (and the rename, if any, was allowed): on the target, to exactly that length *)
Theorem C17_wstat_truncate_exact : forall dotu root path w ops,
  wstat_plan dotu root path w = CPlan ops ->
  (forall p len, In (STruncate p len) ops ->
     wstat_target root path w = Some p /\ len = w_length w /\ w_length w <> ones64) /\
  (forall t, wstat_target root path w = Some t -> w_length w <> ones64 ->
     In (STruncate t (w_length w)) ops).
Proof. exact wstat_truncate_exact. Qed.
Print Assumptions C17_wstat_truncate_exact.

(* chtimes iff a time is given; a time at its don't-touch value is kept, not set (defect D32) *)
Theorem C17_wstat_chtimes_exact : forall dotu root path w ops,
  wstat_plan dotu root path w = CPlan ops ->
  (forall p a m, In (SChtimes p a m) ops ->
     wstat_target root path w = Some p /\ a = keep32 (w_atime w) /\ m = keep32 (w_mtime w) /\
     (w_atime w <> ones32 \/ w_mtime w <> ones32)) /\
  (forall t, wstat_target root path w = Some t -> (w_atime w <> ones32 \/ w_mtime w <> ones32) ->
     In (SChtimes t (keep32 (w_atime w)) (keep32 (w_mtime w))) ops).
Proof. exact wstat_chtimes_exact. Qed.
Print Assumptions C17_wstat_chtimes_exact.

Example C17_wstat_nonvacuous :
  wstat_plan true [[114]] [[114];[102]] (mkWstat 420 c_NOUID c_NOUID [103] 7 5 ones32)
  = CPlan [SChmod [[114];[102]] 420; SRename [[114];[102]] [[114];[103]];
           STruncate [[114];[103]] 7; SChtimes [[114];[103]] None (Some 5)].
Proof. vm_compute. reflexivity. Qed.

Example C17_nonvacuous :
  create_plan true [[114]] [110] (N.lor c_DMDIR 493) 0 [] None = CPlan [SMkdir [[114];[110]] 493; SOpen [[114];[110]] RDONLY false] /\
  create_plan true [[114]] [110] (N.lor c_DMSYMLINK 511) 16 [102] None = CPlan [SSymlink [102] [[114];[110]]].
Proof. vm_compute. split; reflexivity. Qed.


(* ---- a modelling assumption about the shape of the CURRENT source (Gen/Shape.v), re-checked on every run ---- *)
(* toError unwraps the failing call's error with errors.As *)
Theorem C17_source_reports_errno : ShapeLib.ufs_reports_errno = true.
Proof. exact PUfs17.ufs_reports_errno_ok. Qed.
Print Assumptions C17_source_reports_errno.
