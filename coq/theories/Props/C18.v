(* C18 - Ufs confines clients to the exported root.
   Property theorems only (each closed by [exact] of a lemma proved elsewhere, followed by Print Assumptions). *)
From Coq Require Import NArith List Bool.
From V9 Require Shape.ShapeLib Shape.PUfs18.
From V9 Require Import Lib.GoSem Lib.Bytes Gen.Consts Ufs.Path Ufs.Handlers Ufs.UfsProofs.
Import ListNotations.
Local Open Scope N_scope.

(* attach names: for ANY byte string the fid designates something under the root *)
Theorem C18_attach_confined : forall root aname,
  is_clean root = true ->
  inside root (attach_path root aname) = true /\ is_clean (attach_path root aname) = true.
Proof. exact attach_confined. Qed.
Print Assumptions C18_attach_confined.

(* walk elements, including '..' at the root and elements containing '/' *)
Theorem C18_walk_step_confined : forall root path w p',
  is_clean root = true -> inside root (clean path) = true ->
  walk_step root path w = Some p' -> inside root (clean p') = true.
Proof. exact walk_step_confined. Qed.
Print Assumptions C18_walk_step_confined.

(* '..' at the root stays at the root *)
Theorem C18_dotdot_at_root_stays : forall root,
  is_clean root = true -> walk_step root root dotdot = Some root.
Proof. exact dotdot_at_root_stays. Qed.
Print Assumptions C18_dotdot_at_root_stays.

(* create names *)
Theorem C18_create_confined : forall root path name p,
  inside root (clean path) = true -> create_path path name = Some p ->
  inside root (clean p) = true /\ clean p = clean path ++ [name].
Proof. exact create_confined. Qed.
Print Assumptions C18_create_confined.

(* wstat rename targets *)
Theorem C18_rename_confined : forall root path name d,
  rename_dest root path name = Some d -> inside (clean root) d = true /\ is_clean d = true.
Proof. exact rename_confined. Qed.
Print Assumptions C18_rename_confined.

(* a symlink the server agrees to create cannot lead out of the directory that holds it *)
Theorem C18_symlink_confined : forall linkdir ext,
  symlink_ok ext = true -> inside (clean linkdir) (symlink_resolves linkdir ext) = true.
Proof. exact symlink_confined. Qed.
Print Assumptions C18_symlink_confined.

(* sessions: whatever the request sequence and whatever exists, every host path handed to the operating system and every fid stay under the root *)
Theorem C18_all_touched_paths_confined : forall exists_ root rs m m' touched,
  is_clean root = true -> fids_confined root m ->
  urun exists_ root m rs = (m', touched) ->
  Forall (fun p => inside root (clean p) = true) touched /\ fids_confined root m'.
Proof. exact all_touched_paths_confined. Qed.
Print Assumptions C18_all_touched_paths_confined.

Example C18_nonvacuous :
  let root := [[114]] in      (* /r *)
  attach_path root [46;46;47;120] = [[114]; [120]] /\             (* aname "../x" -> /r/x *)
  walk_step root root dotdot = Some root /\
  walk_step root root [97;47;46;46;47;46;46] = None /\             (* "a/../.." is not a name *)
  create_path root [46;46;47;120] = None /\
  rename_dest root [[114];[97]] [46;46;47;120] = None.              (* "../x" from /r/a would leave /r *)
Proof. vm_compute. repeat split. Qed.


(* ---- a modelling assumption about the shape of the CURRENT source (Gen/Shape.v), re-checked on every run ---- *)
(* Attach joins the root with the name made absolute first (two Joins, no Clean of the bare name) *)
Theorem C18_source_attach_anchors_at_the_root : ShapeLib.ufs_attach_anchors_at_root = true.
Proof. exact PUfs18.ufs_attach_anchors_at_root_ok. Qed.
Print Assumptions C18_source_attach_anchors_at_the_root.
