(* C16 - Ufs names and metadata mirror the exported tree.
   Property theorems only (each closed by [exact] of a lemma proved elsewhere, followed by Print Assumptions). *)
From Coq Require Import NArith List Bool.
From V9 Require Shape.ShapeLib Shape.PUfs16.
From V9 Require Import Lib.GoSem Lib.Bytes Gen.Consts Ufs.Path Ufs.Handlers Ufs.UfsProofs.
Import ListNotations.
Local Open Scope N_scope.

(* every walked element exists and the one after the last walked does not (for any existence oracle = any tree) *)
Theorem C16_walk_loop_prefix : forall exists_ root names path n q touched,
  walk_loop exists_ root path names = (n, q, touched) ->
  (n <= length names)%nat /\
  Forall (fun p => exists_ p = true) (firstn n touched) /\
  (length touched = n \/ (length touched = S n /\ exists_ (last touched []) = false)).
Proof. exact walk_loop_prefix. Qed.
Print Assumptions C16_walk_loop_prefix.

(* Rwalk carries one qid per existing leading element, an error if the first is missing, and the new fid designates the target only when every element was walked *)
Theorem C16_walk_result_shape : forall exists_ root path names res touched,
  ufs_walk exists_ root path names = (res, touched) ->
  match res with
  | WErr => names <> [] /\ (forall w rest p, names = w :: rest -> walk_step root path w = Some p -> exists_ p = false)
  | WOk n (Some q) => n = length names
  | WOk n None => (0 < n < length names)%nat
  end.
Proof. exact walk_result_shape. Qed.
Print Assumptions C16_walk_result_shape.

(* paths of any depth resolve through the client (16 names per Twalk) exactly like one walk *)
Theorem C16_fwalk_resolves : forall exists_ root rp p,
  fwalk exists_ root rp p =
  match fst (ufs_walk exists_ root rp (split_slash p)) with
  | WOk n (Some q) => Some q
  | _ => None
  end.
Proof. exact fwalk_resolves. Qed.
Print Assumptions C16_fwalk_resolves.

(* qid type, mode bits, permission bits and qid path mirror the file's metadata *)
Theorem C16_stat_mirrors_inode : forall f dotu,
  fi_perm f < 512 ->
  N.testbit (dir2qidtype f) 7 = fi_dir f /\
  N.testbit (dir2qidtype f) 1 = fi_symlink f /\
  N.testbit (dir2npmode f dotu) 31 = fi_dir f /\
  N.land (dir2npmode f dotu) 511 = fi_perm f /\
  N.testbit (dir2npmode f true) 25 = fi_symlink f /\
  N.testbit (dir2npmode f false) 25 = false /\
  snd (dir2qid f) = fi_ino f.
Proof. exact stat_mirrors_inode. Qed.
Print Assumptions C16_stat_mirrors_inode.

Example C16_nonvacuous :
  let ex := fun p : hpath => existsb (path_eqb p) [[[114];[97]]; [[114];[97];[98]]] in
  fst (ufs_walk ex [[114]] [[114]] [[97];[98];[99]]) = WOk 2 None /\
  fst (ufs_walk ex [[114]] [[114]] [[97];[98]]) = WOk 2 (Some [[114];[97];[98]]) /\
  fst (ufs_walk ex [[114]] [[114]] [[122]]) = WErr.
Proof. vm_compute. repeat split. Qed.


(* ---- a modelling assumption about the shape of the CURRENT source (Gen/Shape.v), re-checked on every run ---- *)
(* walk looks at every element with Lstat; Stat refreshes the metadata before it answers *)
Theorem C16_source_looks_at_the_tree : ShapeLib.ufs_looks_at_the_tree = true.
Proof. exact PUfs16.ufs_looks_at_the_tree_ok. Qed.
Print Assumptions C16_source_looks_at_the_tree.
