(* C04 - The fid table follows the protocol history exactly.
   Property theorems only (each closed by [exact] of a lemma proved elsewhere, followed by Print Assumptions). *)
From Coq Require Import NArith ZArith List Bool.
From V9 Require Shape.ShapeLib Shape.PSeq Shape.POrder.
From V9 Require Import Lib.GoSem Lib.Bytes Gen.Consts Codec.Msg Srv.Seq Srv.SeqSpec Srv.SeqProofs.
Import ListNotations.
Local Open Scope N_scope.

(* initial state: no fid, every invariant holds *)
Theorem C04_cinv_init : forall msize dotu auth,
  msize <= u32max ->
  CInv (start_cfg msize dotu auth) (conn_init (start_cfg msize dotu auth)).
Proof. exact cinv_init. Qed.
Print Assumptions C04_cinv_init.

(* every request, whatever the implementation answers, leaves every remaining fid with exactly one reference (nothing leaked, nothing dropped) and NOFID never a key *)
Theorem C04_cinv_step : forall cfg c t sc c' r ev,
  CInv cfg c -> seq_step cfg c t sc = (c', r, ev) -> CInv cfg c'.
Proof. exact cinv_step. Qed.
Print Assumptions C04_cinv_step.

(* one request: the concrete table follows the abstract fid set of the statement (valid only through successful Tauth / Tattach / complete Twalk; invalid after successful Tclunk or any Tremove; unchanged by failed, partial or unrelated operations; users preserved) *)
Theorem C04_fid_table_refines_spec : forall cfg c t sc c' r ev,
  CInv cfg c -> seq_step cfg c t sc = (c', r, ev) ->
  veq (abs (c_fids c')) (spec_step (abs (c_fids c)) t r).
Proof. exact fid_table_refines_spec. Qed.
Print Assumptions C04_fid_table_refines_spec.

(* ... hence over every history *)
Theorem C04_fid_table_refines_spec_run : forall cfg h c c' out,
  CInv cfg c -> seq_run cfg c h = (c', out) ->
  length out = length h /\
  veq (abs (c_fids c')) (spec_run (abs (c_fids c)) (combine (map fst h) (map fst out))).
Proof. exact fid_table_refines_spec_run. Qed.
Print Assumptions C04_fid_table_refines_spec_run.

(* a request naming an invalid fid is refused with 'unknown fid' without reaching the implementation, state unchanged *)
Theorem C04_unknown_fid_refused : forall cfg c t sc c' r ev,
  CInv cfg c -> takes_fid t = true -> is_valid c (tfid t) = false ->
  13 + len c_Eunknownfid_text <= c_msize c ->
  seq_step cfg c t sc = (c', r, ev) ->
  is_error_text r c_Eunknownfid_text = true /\ forwarded ev = false /\ c' = c.
Proof. exact unknown_fid_refused. Qed.
Print Assumptions C04_unknown_fid_refused.

(* binding an already valid fid: 'fid already in use', nothing forwarded, state unchanged *)
Theorem C04_fid_in_use_refused_attach : forall cfg c fid afid un an num sc c' r ev,
  CInv cfg c -> is_valid c fid = true -> 13 + len c_Einuse_text <= c_msize c ->
  seq_step cfg c (Tattach_ fid afid un an num) sc = (c', r, ev) ->
  is_error_text r c_Einuse_text = true /\ forwarded ev = false /\ c' = c.
Proof. exact fid_in_use_refused_attach. Qed.
Print Assumptions C04_fid_in_use_refused_attach.

(*  *)
Theorem C04_fid_in_use_refused_auth : forall cfg c afid un an num sc c' r ev,
  CInv cfg c -> is_valid c afid = true -> 13 + len c_Einuse_text <= c_msize c ->
  seq_step cfg c (Tauth_ afid un an num) sc = (c', r, ev) ->
  is_error_text r c_Einuse_text = true /\ forwarded ev = false /\ c' = c.
Proof. exact fid_in_use_refused_auth. Qed.
Print Assumptions C04_fid_in_use_refused_auth.

(*  *)
Theorem C04_fid_in_use_refused_walk : forall cfg c fid nf names sc c' r ev,
  CInv cfg c -> is_valid c nf = true -> fid <> nf ->
  seq_step cfg c (Twalk_ fid nf names) sc = (c', r, ev) ->
  is_rerror r = true /\ forwarded ev = false /\ veq (abs (c_fids c')) (abs (c_fids c)).
Proof. exact fid_in_use_refused_walk. Qed.
Print Assumptions C04_fid_in_use_refused_walk.

(* the implementation is told of the destruction of a fid exactly once, in the step whose reply invalidates it *)
Theorem C04_destroy_exactly_once : forall cfg c t sc c' r ev k,
  CInv cfg c -> seq_step cfg c t sc = (c', r, ev) ->
  (count_destroy k ev <= 1)%nat /\
  (is_valid c k = true -> is_valid c' k = false -> count_destroy k ev = 1%nat) /\
  (is_valid c' k = true -> count_destroy k ev = 0%nat).
Proof. exact destroy_exactly_once. Qed.
Print Assumptions C04_destroy_exactly_once.

(* Non-vacuity: attach, walk to a new fid, clunk it: the fid set follows, FidDestroy once. *)
Example C04_nonvacuous :
  let cfg := start_cfg 8192 true false in
  let q := mkQid 128 0 1 in
  let h := [(Tattach_ 0 c_NOFID [] [] 5, mkScript (AOk (Rattach_ q)) None);
            (Twalk_ 0 1 [[97]], mkScript (AOk (Rwalk_ [q])) None);
            (Tclunk_ 1, mkScript (AOk Rclunk_) None)] in
  let '(c, out) := seq_run cfg (conn_init cfg) h in
  map fst (c_fids c) = [0] /\ map snd out = [[EvFwd (Tattach_ 0 c_NOFID [] [] 5) 0 5]; [EvFwd (Twalk_ 0 1 [[97]]) 0 5];
                                               [EvFwd (Tclunk_ 1) 1 5; EvDestroy 1]].
Proof. vm_compute. split; reflexivity. Qed.


(* a partial walk (fewer qids than names) changes nothing: neither the fid set nor the open state nor the type of
   any fid - in particular the fid an in-place partial walk leaves in place (defect repaired by a2423ff) *)
Theorem C04_partial_walk_changes_nothing : forall cfg c fid nf names sc c' qs ev,
  CInv cfg c -> seq_step cfg c (Twalk_ fid nf names) sc = (c', Rwalk_ qs, ev) ->
  length qs <> length names ->
  veq (abs (c_fids c')) (abs (c_fids c)) /\
  veq (oabs (c_fids c')) (oabs (c_fids c)) /\
  veq (tabs (c_fids c')) (tabs (c_fids c)).
Proof. exact partial_walk_changes_no_attribute. Qed.
Print Assumptions C04_partial_walk_changes_nothing.

(* a failed operation (other than Tremove) changes nothing; Tremove removes its fid and touches no other *)
Theorem C04_error_changes_nothing : forall cfg c t sc c' r ev,
  CInv cfg c -> seq_step cfg c t sc = (c', r, ev) ->
  is_rerror r = true -> (forall fid, t <> Tremove_ fid) ->
  veq (abs (c_fids c')) (abs (c_fids c)) /\
  veq (oabs (c_fids c')) (oabs (c_fids c)) /\
  veq (tabs (c_fids c')) (tabs (c_fids c)).
Proof. exact error_changes_no_attribute. Qed.
Print Assumptions C04_error_changes_nothing.

Theorem C04_remove_removes_key_only : forall cfg c fid sc c' r ev,
  CInv cfg c -> seq_step cfg c (Tremove_ fid) sc = (c', r, ev) ->
  veq (abs (c_fids c')) (vdel (abs (c_fids c)) fid) /\
  veq (oabs (c_fids c')) (vdel (oabs (c_fids c)) fid) /\
  veq (tabs (c_fids c')) (vdel (tabs (c_fids c)) fid).
Proof. exact remove_removes_key_only. Qed.
Print Assumptions C04_remove_removes_key_only.

(* ---- a modelling assumption about the shape of the CURRENT source (Gen/Shape.v), re-checked on every run ---- *)
(* every refusal of walk / open / create precedes the change of the fid table or of the fid; walkPost compares the fid numbers before it retains *)
Theorem C04_source_handlers_check_before_they_change : ShapeLib.handlers_check_before_they_change = true.
Proof. exact PSeq.handlers_check_before_they_change_ok. Qed.
Print Assumptions C04_source_handlers_check_before_they_change.

(* the reply is handed to the send goroutine only after the post-handlers ran: the implementation is told of a fid's destruction (FidDestroy, in PostProcess) no later than the reply that invalidates the fid (order of the steps of Respond in the CURRENT source) *)
Theorem C04_source_respond_order : ShapeLib.respond_order = true.
Proof. exact POrder.respond_order_ok. Qed.
Print Assumptions C04_source_respond_order.

(* a fid whose creating request is still unanswered (or whose last reference is gone) is not handed out: FidGet looks at
   creating and dead under the fid's lock before it counts a reference - "valid only through a SUCCESSFUL Tauth/Tattach/Twalk" *)
Theorem C04_source_fidget_guard : ShapeLib.fidget_guard = true.
Proof. exact PSeq.fidget_guard_ok. Qed.
Print Assumptions C04_source_fidget_guard.

(* the life time of a fid in the source: FidNew marks it as being created, retain links it unless the connection is
   closed, unlink clears the link before its DecRef, DecRef marks it dead at 0 and calls FidDestroy after the delete,
   Conn.close sets closed and unlinks what the table holds - "told of the destruction of every fid it was shown exactly once" *)
Theorem C04_source_fid_lifetime : ShapeLib.fid_lifetime = true.
Proof. exact PSeq.fid_lifetime_ok. Qed.
Print Assumptions C04_source_fid_lifetime.
