(* C12 - Version and msize negotiation is honoured in both directions.
   Property theorems only (each closed by [exact] of a lemma proved elsewhere, followed by Print Assumptions). *)
From Coq Require Import NArith ZArith List Bool.
From V9 Require Shape.ShapeLib Shape.PVersion Shape.PRecv.
From V9 Require Import Lib.GoSem Lib.Bytes Gen.Consts Codec.Msg Srv.Seq Srv.SeqSpec Srv.SeqProofs Recv.Recv Recv.RecvProofs.
From V9 Require Import Clnt.IO Clnt.Version Clnt.VersionProofs.
Import ListNotations.
Local Open Scope N_scope.

(* Tversion yields msize = min(client, server), refuses msize < IOHDRSZ leaving the connection unchanged, and 9P2000.u only if both sides asked for it *)
Theorem C12_rversion_min : forall cfg c ms ver sc,
  CInv cfg c ->
  seq_step cfg c (Tversion_ ms ver) sc =
  if ms <? c_IOHDRSZ then (c, on_wire (c_dotu c) (fit (c_dotu c) (c_msize c) (Rerror_ (fst e_msize) (snd e_msize))), [])
  else
    let m := N.min ms (c_msize c) in
    let du := bytes_eqb ver ver_u && s_dotu cfg in
    (mkConn m du (c_fids c), Rversion_ m (if du then ver_u else ver_p), []).
Proof. exact rversion_min. Qed.
Print Assumptions C12_rversion_min.

(* no reply is longer than the msize in force when its request arrived (whatever the implementation answers) *)
Theorem C12_no_reply_exceeds_msize : forall cfg c t sc c' r ev,
  CInv cfg c -> seq_step cfg c t sc = (c', r, ev) ->
  len (spec_encode (c_dotu c') 0 r) <= c_msize c.
Proof. exact no_reply_exceeds_msize. Qed.
Print Assumptions C12_no_reply_exceeds_msize.

(* the Rversion itself respects the msize it announces *)
Theorem C12_rversion_fits_new_msize : forall cfg c ms ver sc c' r ev,
  CInv cfg c -> seq_step cfg c (Tversion_ ms ver) sc = (c', r, ev) ->
  len (spec_encode (c_dotu c') 0 r) <= c_msize c'.
Proof. exact rversion_fits_new_msize. Qed.
Print Assumptions C12_rversion_fits_new_msize.

(* msize stays within [IOHDRSZ, server msize] for ever *)
Theorem C12_cinv_step : forall cfg c t sc c' r ev,
  CInv cfg c -> seq_step cfg c t sc = (c', r, ev) -> CInv cfg c'.
Proof. exact cinv_step. Qed.
Print Assumptions C12_cinv_step.

(* a connection that announces a frame larger than msize (or smaller than a header)
   is dropped instead of buffering or executing it: the framing specification the
   receive loop is proved equal to (C13) never delivers such a frame *)
Theorem C12_delivered_items_framed : forall negot p stream its p' rest bad it,
  negot_ok negot -> c_IOHDRSZ <= p_msize p ->
  frames negot true (S (length stream)) p stream = (its, p', rest, bad) ->
  In it its ->
  7 <= len (i_frame it) /\ le_dec (firstn 4 (i_frame it)) = len (i_frame it) /\ len (i_frame it) <= p_msize p.
Proof. exact delivered_items_framed. Qed.
Print Assumptions C12_delivered_items_framed.

Example C12_nonvacuous :
  let cfg := start_cfg 8192 true false in
  fst (fst (seq_step cfg (conn_init cfg) (Tversion_ 100 ver_u) (mkScript (AErr [] 0) None))) = mkConn 100 true [] /\
  snd (fst (seq_step cfg (conn_init cfg) (Tversion_ 100 ver_p) (mkScript (AErr [] 0) None))) = Rversion_ 100 ver_p.
Proof. vm_compute. split; reflexivity. Qed.


(* ---- the client's direction (clnt_clnt.go Connect, clnt_open.go, clnt_read.go, clnt_write.go) ---- *)
(* the client adopts min(its own, the server's) msize ... *)
Theorem C12_client_adopts_min : forall cm wantu rm rv, fst (clnt_connect cm wantu rm rv) = N.min cm rm.
Proof. exact clnt_connect_min. Qed.
Print Assumptions C12_client_adopts_min.

(* ... and 9P2000.u only if it asked for it and the server answered with it *)
Theorem C12_client_dialect : forall cm wantu rm rv,
  snd (clnt_connect cm wantu rm rv) = true <-> (wantu = true /\ bytes_eqb rv ver_u = true).
Proof. exact clnt_connect_dialect. Qed.
Print Assumptions C12_client_dialect.

(* both directions composed: whatever the state of the server's connection, after the exchange client and server
   hold the same msize and the same dialect *)
Theorem C12_both_sides_agree : forall cfg c cm wantu sc c' m v ev,
  CInv cfg c -> c_IOHDRSZ <= cm ->
  seq_step cfg c (clnt_version_request cm wantu) sc = (c', Rversion_ m v, ev) ->
  clnt_connect cm wantu m v = (c_msize c', c_dotu c').
Proof. exact both_sides_agree. Qed.
Print Assumptions C12_both_sides_agree.

(* with the iounit Clnt.Open derives from the negotiated msize, no Twrite frame the client sends and no Rread it
   asks for exceeds that msize, for EVERY reported iounit and buffer length *)
Theorem C12_client_frames_fit : forall msize riounit n,
  c_IOHDRSZ <= msize ->
  let iou := open_iounit msize riounit in
  iou <= msize - c_IOHDRSZ /\
  twrite_frame_len iou n <= msize /\
  rread_frame_len (tread_count iou n) <= msize.
Proof. exact client_frames_fit. Qed.
Print Assumptions C12_client_frames_fit.

(* ---- structural parameters read off the CURRENT source (Gen/Shape.v): version compares the requested msize
   with the CONNECTION's (it can only shrink) and takes the dialect from the SERVER's capability ---- *)
Theorem C12_source_version_negotiation : ShapeLib.version_negotiation = true.
Proof. exact PVersion.version_negotiation_ok. Qed.
Print Assumptions C12_source_version_negotiation.

(* the announced size of every frame is compared with the negotiated msize in both receive loops *)
Theorem C12_source_size_checked_against_msize : V9.Shape.ShapeLib.size_checked_against_msize = true.
Proof. exact V9.Shape.PRecv.size_checked_against_msize_ok. Qed.
Print Assumptions C12_source_size_checked_against_msize.

(* a Tversion cancels every outstanding request, the waiting members of shared-tag groups included, before it is
   answered: nothing sized or encoded for the previous msize and dialect is sent after the Rversion (rule LV1 of Srv/Conc.v) *)
Theorem C12_source_version_cancels_whole_groups : ShapeLib.version_cancels_whole_groups = true.
Proof. exact PVersion.version_cancels_whole_groups_ok. Qed.
Print Assumptions C12_source_version_cancels_whole_groups.
