(* C01 - Wire-format fidelity of the message codec in both dialects.
   Property theorems only: each closed by [exact] of a lemma proved in
   Codec/PackProofs.v / Codec/UnpackProofs.v, followed by Print Assumptions. *)
From Coq Require Import NArith List Bool.
From V9 Require Import Lib.GoSem Lib.Bytes Gen.Consts Codec.Msg Codec.Pack Codec.Unpack
  Codec.PackProofs Codec.UnpackProofs.
Import ListNotations.
Local Open Scope N_scope.

(* the numbering in p9.go (regenerated into Gen/Consts.v on every run) is the protocol's *)
Theorem C01_typ_is_proto : forall m, typ m = proto_typ m.
Proof. exact typ_is_proto. Qed.
Print Assumptions C01_typ_is_proto.

(* For every message type, both dialects, every representable combination of field
   values and ANY previous contents of the buffer: the packet built by the
   constructor is byte for byte the protocol layout. *)
Theorem C01_pack_is_layout : forall dotu m buf,
  wf_msg dotu m = true ->
  len (spec_encode dotu c_NOTAG m) <= len buf ->
  pack dotu m buf = Ok (spec_encode dotu c_NOTAG m).
Proof. exact pack_is_layout. Qed.
Print Assumptions C01_pack_is_layout.

Theorem C01_pack_too_small : forall dotu m buf,
  wf_msg dotu m = true ->
  len buf < len (spec_encode dotu c_NOTAG m) ->
  pack dotu m buf = Err e_bufsmall.
Proof. exact pack_too_small. Qed.
Print Assumptions C01_pack_too_small.

(* size[4] equals the packet length, type[1] and tag[2] sit at their wire positions *)
Theorem C01_size_prefix_le : forall dotu t m,
  wf_msg dotu m = true -> wf_u16 t = true ->
  le_dec (firstn 4 (spec_encode dotu t m)) = len (spec_encode dotu t m) /\
  nth_error (spec_encode dotu t m) 4 = Some (proto_typ m) /\
  le_dec (firstn 2 (skipn 5 (spec_encode dotu t m))) = t.
Proof. exact size_prefix_le. Qed.
Print Assumptions C01_size_prefix_le.

(* a tag set afterwards appears at its wire position without disturbing anything else *)
Theorem C01_set_tag_spec : forall dotu t t' m,
  set_tag (spec_encode dotu t m) t' = Ok (spec_encode dotu t' m).
Proof. exact set_tag_spec. Qed.
Print Assumptions C01_set_tag_spec.

(* decoding those bytes in the same dialect yields the same field values and
   consumes exactly the packet, whatever follows it in the buffer *)
Theorem C01_unpack_encode : forall dotu m t rest,
  wf_fields dotu m = true -> wf_size dotu m = true -> wf_u16 t = true ->
  unpack dotu (spec_encode dotu t m ++ rest)
  = Ok (t, norm_msg dotu m, len (spec_encode dotu t m)).
Proof. exact unpack_encode. Qed.
Print Assumptions C01_unpack_encode.

(* stat records on their own *)
Theorem C01_pack_dir_is_spec : forall dotu d,
  wf_dir dotu d = true -> pack_dir dotu d = Ok (spec_stat dotu d).
Proof. exact pack_dir_is_spec. Qed.
Print Assumptions C01_pack_dir_is_spec.

Theorem C01_unpack_dir_encode : forall dotu d rest,
  wf_dir dotu d = true ->
  unpack_dir dotu (spec_stat dotu d ++ rest)
  = Ok (len (spec_stat dotu d) - 2, norm_dir dotu d, rest, len (spec_stat dotu d)).
Proof. exact unpack_dir_encode. Qed.
Print Assumptions C01_unpack_dir_encode.

(* the InitRread / SetRreadCount two-step form *)
Theorem C01_rread_two_step_spec : forall buf n data k,
  all_bytes data = true -> k <= n -> k <= len data ->
  11 + n <= len buf -> 11 + n <= u32max ->
  rread_two_step buf n data k = Ok (spec_encode false c_NOTAG (Rread_ (firstn (N.to_nat k) data))).
Proof. exact rread_two_step_spec. Qed.
Print Assumptions C01_rread_two_step_spec.

(* Non-vacuity: a maximal-ish Twalk, an empty Rread and a plain-9P2000 Rwstat are
   representable, pack to the layout and decode back. *)
Example C01_nonvacuous :
  let m1 := Twalk_ 1 4294967294 [[97;98]; []; [255]] in
  let m2 := Rread_ [] in
  let m3 := Rwstat_ in
  forallb (fun m => wf_msg true m && wf_msg false m) [m1; m2; m3] = true /\
  unpack false (spec_encode false 7 m3) = Ok (7, m3, 7) /\
  pack true m1 (repeat 170 64) = Ok (spec_encode true c_NOTAG m1).
Proof. vm_compute. repeat split. Qed.
