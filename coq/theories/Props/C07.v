(* C07 - Tflush is always answered and truly cancels.
   Property theorems only (each closed by [exact] of a lemma proved in Srv/Conc*.v, followed by Print Assumptions).
   All statements quantify over EVERY reachable state of the life-cycle LTS Srv/Conc.v: any number of requests,
   any interleaving of the receive, worker, responder and send steps, any behaviour of the implementation. *)
From Coq Require Import NArith List Bool PeanoNat.
From V9 Require Shape.ShapeLib Shape.POrder Shape.PFlush.
From V9 Require Race.Facts Shape.PLocks.
From V9 Require Import Lib.GoSem Gen.Consts Srv.Conc Srv.ConcProofs.
From V9 Require Import Srv.ConcFlushChain.
Import ListNotations.

(* if both the flushed request's reply and the Rflush are sent, the reply is first *)
Theorem C07_reply_before_rflush : forall c s f t qf i j,
  reach c s -> NoGroups s ->
  getq s f = Some qf -> q_target qf = Some t ->
  wire_index s f = Some i -> wire_index s t = Some j -> j < i.
Proof. exact reply_before_rflush. Qed.
Print Assumptions C07_reply_before_rflush.

(* once the Rflush is on the wire without a preceding reply, the target is never handed to the implementation afterwards and never answered *)
Theorem C07_rflush_means_cancelled : forall c s f t qf qt,
  reach c s -> NoGroups s ->
  getq s f = Some qf -> q_target qf = Some t -> getq s t = Some qt ->
  1 <= on_wire s f -> on_wire s t = 0 ->
  forall ls s', run c s ls = Some s' ->
    on_wire s' t = 0 /\ in_outq s' t = 0 /\
    (forall qt', getq s' t = Some qt' -> q_called qt' = q_called qt).
Proof. exact rflush_means_cancelled. Qed.
Print Assumptions C07_rflush_means_cancelled.

(* a request whose reqFlush bit is set before any goroutine worked on it is never executed *)
Theorem C07_flushed_before_start_never_called : forall c s t qt,
  reach c s -> getq s t = Some qt -> q_flush qt = true ->
  (q_pc qt = WWait \/ q_pc qt = WSpawned) ->
  q_called qt = false /\
  forall ls s' qt', run c s ls = Some s' -> getq s' t = Some qt' -> q_called qt' = false.
Proof. exact flushed_before_start_never_called. Qed.
Print Assumptions C07_flushed_before_start_never_called.

(* the flush handler cancels only requests nobody has started to work on *)
Theorem C07_flush_cancels_only_unstarted : forall c s f t qf s',
  reach c s -> getq s f = Some qf -> q_pc qf = WF2 t -> step c s (LF2 f) = Some s' ->
  forall qt qt', getq s t = Some qt -> getq s' t = Some qt' ->
  (q_flush qt' = true /\ q_flush qt = false) -> (q_pc qt' = WWait \/ q_pc qt' = WSpawned \/ q_resp qt' = true).
Proof. exact flush_cancels_only_unstarted. Qed.
Print Assumptions C07_flush_cancels_only_unstarted.

(* every Tflush whose target is an ordinary request is answered exactly once (at quiescence, everything handed to the implementation answered); immediately when the old tag is not outstanding (its own Respond needs nobody else: C08_frame_can_finish) *)
Theorem C07_flush_answered_once_corrected : forall c s f qf old,
  reach c s -> quiescent c s -> closed s = false -> NoGroups s -> all_answered s ->
  getq s f = Some qf -> q_kind qf = KFlush old -> q_flush qf = false ->
  (q_pc qf = WDone \/ exists t, q_pc qf = WInFlushOp t) ->
  (forall t qt, q_target qf = Some t -> getq s t = Some qt -> q_kind qt = KOp \/ q_kind qt = KVersion) ->
  on_wire s f = 1.
Proof. exact flush_answered_once_corrected. Qed.
Print Assumptions C07_flush_answered_once_corrected.

(* the same for a Tflush whose target is itself a Tflush, to any depth: answered exactly once, provided the chain of
   targets is finite (ends in a request that is not a Tflush, or in no target). Only the cycles are excluded, and the
   recorded counterexample (a Tflush naming itself) is exactly such a cycle *)
Theorem C07_flush_chain_answered_once : forall c s f qf old,
  reach c s -> quiescent c s -> closed s = false -> NoGroups s -> all_answered s ->
  getq s f = Some qf -> q_kind qf = KFlush old -> q_flush qf = false ->
  wf_target s f -> on_wire s f = 1.
Proof. exact flush_chain_answered_once. Qed.
Print Assumptions C07_flush_chain_answered_once.

Theorem C07_finite_target_chains_are_the_acyclic_ones : forall s f,
  wf_target s f -> ~ Relation_Operators.clos_trans nat (tflush s) f f.
Proof. exact wf_target_acyclic. Qed.
Print Assumptions C07_finite_target_chains_are_the_acyclic_ones.

Theorem C07_the_counterexample_is_a_cycle : ~ wf_target cex_st 0.
Proof. exact counterexample_not_wf_target. Qed.
Print Assumptions C07_the_counterexample_is_a_cycle.

(* the full statement without the hypothesis on the target is FALSE of the faithful model and of the code: a Tflush naming its own tag waits for itself (recorded as known finding flush-cycle) *)
Theorem C07_flush_answered_once_counterexample :
  run cex_cfg init cex_run = Some cex_st /\
  reach cex_cfg cex_st /\ quiescent cex_cfg cex_st /\ closed cex_st = false /\ NoGroups cex_st /\
  all_answered cex_st /\
  getq cex_st 0 = Some cex_rq /\ q_kind cex_rq = KFlush 1%N /\ q_flush cex_rq = false /\
  q_pc cex_rq = WDone /\ on_wire cex_st 0 = 0.
Proof. exact flush_answered_once_counterexample. Qed.
Print Assumptions C07_flush_answered_once_counterexample.



(* ---- structural parameters read off the CURRENT source (Gen/Shape.v) ---- *)
Theorem C07_source_structure :
  ShapeLib.respond_order = true /\ ShapeLib.recv_resets_reply_type = true /\ ShapeLib.cancelled_not_executed = true.
Proof. split; [exact POrder.respond_order_ok | split; [exact POrder.recv_resets_reply_type_ok | exact POrder.cancelled_not_executed_ok]]. Qed.
Print Assumptions C07_source_structure.


(* ---- a modelling assumption about the shape of the CURRENT source (Gen/Shape.v), re-checked on every run ---- *)
(* the Tflush is chained to its target inside the critical section in which Respond unlinks requests and collects their flushes *)
Theorem C07_source_flush_chains_under_the_connection_lock : ShapeLib.flush_chains_under_conn_lock = true.
Proof. exact PFlush.flush_chains_under_conn_lock_ok. Qed.
Print Assumptions C07_source_flush_chains_under_the_connection_lock.

(* ---- a modelling assumption about the CURRENT source (Gen/LockFacts.v), re-checked on every run ---- *)
(* the steps the models treat as atomic are critical sections in the source: every access to a mutex-protected
   field (request lists and tag groups, flush chains, request status, the client's pending list and error) holds its mutex *)
Theorem C07_source_critical_sections : V9.Race.Facts.violations = [].
Proof. exact V9.Shape.PLocks.sites_comply_ok. Qed.
Print Assumptions C07_source_critical_sections.
