(* C14 - File data read and written through client and Ufs is exact.
   Property theorems only (proved in Clnt/IOProofs.v). *)
From Coq Require Import NArith List Bool.
From V9 Require Shape.ShapeLib Shape.PUfs14 Shape.PViews Recv.Views.
From V9 Require Import Lib.GoSem Lib.Bytes Gen.Consts Clnt.IO Clnt.IOProofs.
Import ListNotations.
Local Open Scope N_scope.

Theorem C14_open_iounit_sane : forall msize r,
  c_IOHDRSZ < msize -> msize <= u32max -> sane msize (open_iounit msize r).
Proof. exact open_iounit_sane. Qed.
Print Assumptions C14_open_iounit_sane.

(* for every file content, msize, offset and count: Clnt.Read returns the
   corresponding bytes of the underlying file (POSIX pread), clamped to iounit *)
Theorem C14_read_exact : forall msize iounit file off cnt,
  sane msize iounit -> off < two63 ->
  clnt_read msize iounit file off cnt = Ok (pread file off (N.min cnt iounit)).
Proof. exact read_exact. Qed.
Print Assumptions C14_read_exact.

(* reads at or beyond the end return no data *)
Theorem C14_pread_beyond_eof : forall file off cnt, len file <= off -> pread file off cnt = [].
Proof. exact pread_beyond_eof. Qed.
Print Assumptions C14_pread_beyond_eof.

(* File.Read advances its offset by exactly the bytes returned *)
Theorem C14_seqread_exact : forall msize iounit file n offset,
  sane msize iounit -> offset < two63 ->
  file_read msize iounit file n offset =
  match pread file offset (N.min n iounit) with
  | [] => (RdEOF, offset)
  | d => (RdOk d, offset + len d)
  end.
Proof. exact seqread_exact. Qed.
Print Assumptions C14_seqread_exact.

(* File.Readn transfers exactly the bytes requested up to end of file, for any iounit *)
Theorem C14_readn_exact : forall msize iounit file n off,
  sane msize iounit -> off + n < two63 ->
  file_readn (S (N.to_nat n)) msize iounit file n off = Ok (pread file off n).
Proof. exact readn_exact. Qed.
Print Assumptions C14_readn_exact.

Theorem C14_write_exact : forall msize iounit file off data,
  sane msize iounit -> off < two63 ->
  clnt_write msize iounit file off data =
  Ok (N.min (len data) iounit, pwrite file off (firstn (N.to_nat iounit) data)).
Proof. exact write_exact. Qed.
Print Assumptions C14_write_exact.

(* data written with any chunking is exactly what the file then contains *)
Theorem C14_written_exact : forall msize iounit file off data,
  sane msize iounit -> off + len data < two63 ->
  file_written (S (length data)) msize iounit file off data = Ok (len data, pwrite file off data).
Proof. exact written_exact. Qed.
Print Assumptions C14_written_exact.

Theorem C14_written_chunking_irrelevant : forall m1 i1 m2 i2 file off data,
  sane m1 i1 -> sane m2 i2 -> off + len data < two63 ->
  file_written (S (length data)) m1 i1 file off data = file_written (S (length data)) m2 i2 file off data.
Proof. exact written_chunking_irrelevant. Qed.
Print Assumptions C14_written_chunking_irrelevant.

(* the reference file is POSIX: what is written is read back, nothing else changes *)
Theorem C14_pread_pwrite_same : forall file off data, pread (pwrite file off data) off (len data) = data.
Proof. exact pread_pwrite_same. Qed.
Print Assumptions C14_pread_pwrite_same.

Theorem C14_pwrite_outside : forall file off data i,
  (i < off \/ off + len data <= i) -> i < len file ->
  nth_error (pwrite file off data) (N.to_nat i) = nth_error file (N.to_nat i).
Proof. exact pwrite_outside. Qed.
Print Assumptions C14_pwrite_outside.

Example C14_nonvacuous :
  sane 128 104 /\
  file_readn 11 128 3 [1;2;3;4;5;6;7] 10 2 = Ok [3;4;5;6;7] /\
  file_written 6 128 2 [1;2;3] 5 [9;8;7;6;5] = Ok (5, [1;2;3;0;0;9;8;7;6;5]).
Proof. unfold sane, c_IOHDRSZ, u32max. vm_compute. repeat split; discriminate. Qed.


(* ---- a modelling assumption about the shape of the CURRENT source (Gen/Shape.v), re-checked on every run ---- *)
(* Ufs reads and writes with ReadAt / WriteAt: no file position shared between requests *)
Theorem C14_source_reads_positionally : ShapeLib.ufs_reads_positionally = true.
Proof. exact PUfs14.ufs_reads_positionally_ok. Qed.
Print Assumptions C14_source_reads_positionally.


(* ---- the receive buffer as memory (Recv/Views.v): Unpack does not copy, what is handed on keeps slices into
   the receive buffer. For any reads, deliveries and reallocations no byte that arrives later overwrites a
   delivered message; compacting inside the buffer (seeded changes C09c, C13a, C14a) is refuted; and in the
   CURRENT source every copy in a receive loop goes into a buffer made in the statement before, and the buffer variable is only advanced over itself or replaced by such a buffer ---- *)
Theorem C14_delivered_messages_never_overwritten : forall ls c s,
  Views.run false (Views.init c) ls = Some s -> Views.clobbered s = false.
Proof. exact Views.delivered_messages_never_overwritten. Qed.
Print Assumptions C14_delivered_messages_never_overwritten.

Theorem C14_compaction_refuted : exists ls s, Views.run true (Views.init 64) ls = Some s /\ Views.clobbered s = true.
Proof. exact Views.compaction_refuted. Qed.
Print Assumptions C14_compaction_refuted.

Theorem C14_source_never_compacts_a_receive_buffer : ShapeLib.recv_never_compacts = true.
Proof. exact PViews.recv_never_compacts_ok. Qed.
Print Assumptions C14_source_never_compacts_a_receive_buffer.
