(* C11 - A disconnect releases everything the connection held.
   Property theorems only (each closed by [exact] of a lemma proved in Srv/Conc*.v, followed by Print Assumptions).
   All statements quantify over EVERY reachable state of the life-cycle LTS Srv/Conc.v: any number of requests,
   any interleaving of the receive, worker, responder and send steps, any behaviour of the implementation. *)
From Coq Require Import NArith List Bool PeanoNat.
From V9 Require Shape.ShapeLib Shape.PFid Shape.PDisc.
From V9 Require Race.Facts Shape.PLocks.
From V9 Require Import Lib.GoSem Gen.Consts Srv.Conc Srv.ConcProofs.
From V9 Require Srv.FidRef Srv.FidRefProofs.
From V9 Require Srv.Seq.
From Coq Require Import ZArith.
Import ListNotations.

(* after the disconnect nothing is written or received any more, and it cannot happen twice *)
Theorem C11_disconnect_final : forall c s,
  reach c s -> closed s = true ->
  step c s LSend = None /\ step c s LDisconnect = None /\ (forall t k, step c s (LArrive t k) = None) /\
  forall l s', step c s l = Some s' -> closed s' = true /\ wire s' = wire s.
Proof. exact disconnect_final. Qed.
Print Assumptions C11_disconnect_final.

(* after the disconnect no Respond ever blocks: every goroutine still answering a request of the dead connection can finish *)
Theorem C11_no_respond_blocks_after_close : forall c s fi f,
  reach c s -> closed s = true -> nth_error (F s) fi = Some f -> f_pc f <> RDone ->
  step c s (LR fi) <> None.
Proof. exact no_respond_blocks_after_close. Qed.
Print Assumptions C11_no_respond_blocks_after_close.

(* a reply is never written twice, also around a disconnect *)
Theorem C11_at_most_one_reply : forall c s r,
  reach c s -> on_wire s r + in_outq s r <= 1.
Proof. exact at_most_one_reply. Qed.
Print Assumptions C11_at_most_one_reply.


(* Conn.close drops the table's reference of every remaining fid (DecRef on a snapshot):
   with the invariant of the sequential model (exactly one reference per fid between
   requests) every fid still valid is destroyed exactly once and the table ends empty. *)
Fixpoint close_fids (ft : Seq.ftab) (keys : list N) : Seq.ftab * list Seq.event :=
  match keys with
  | [] => (ft, [])
  | k :: rest => let '(ft1, e1) := Seq.decref ft k in let '(ft2, e2) := close_fids ft1 rest in (ft2, e1 ++ e2)
  end.

Example C11_close_destroys_each_fid_once :
  let ft := [(0%N, Seq.mkFid 1%Z false 0%N 128%N 5%N 0%N); (7%N, Seq.mkFid 1%Z true 0%N 0%N 5%N 0%N)] in
  close_fids ft (map fst ft) = ([], [Seq.EvDestroy 0%N; Seq.EvDestroy 7%N]).
Proof. vm_compute. reflexivity. Qed.


(* ---- fids, with requests still executing at the disconnect (Srv/FidRef.v: every label is one
   critical section of FidNew / FidGet / retain / unlink / DecRef / Conn.close; any request may
   take any step it is entitled to at any time) ---- *)

(* once the connection is closed, the close loop has run and every request has returned, every
   fid ever created on it has been reported destroyed exactly once and the table is empty *)
Theorem C11_all_fids_destroyed_exactly_once : forall s,
  FidRef.reach true s -> FidRef.quiescent s ->
  (forall o, In o (FidRef.objs s) -> FidRef.o_destroyed o = 1) /\ FidRef.table s = [].
Proof. exact FidRefProofs.quiescent_all_destroyed_once. Qed.
Print Assumptions C11_all_fids_destroyed_exactly_once.

(* never twice, in any reachable state *)
Theorem C11_fid_destroyed_at_most_once : forall s i o,
  FidRef.reach true s -> nth_error (FidRef.objs s) i = Some o -> FidRef.o_destroyed o + FidRef.o_pend o <= 1.
Proof. exact FidRefProofs.destroyed_or_pending_at_most_once. Qed.
Print Assumptions C11_fid_destroyed_at_most_once.

(* never while a request still holds a counted reference to it *)
Theorem C11_no_reference_to_destroyed_fid : forall s i o,
  FidRef.reach true s -> nth_error (FidRef.objs s) i = Some o -> 0 < FidRef.o_held o + FidRef.o_owed o ->
  FidRef.o_dead o = false /\ FidRef.o_destroyed o = 0 /\ FidRef.o_pend o = 0.
Proof. exact FidRefProofs.no_reference_to_destroyed_fid. Qed.
Print Assumptions C11_no_reference_to_destroyed_fid.

(* the reference count is exactly the number of holders (requests, pending unlinks, the table) *)
Theorem C11_refcount_is_number_of_holders : forall s i o,
  FidRef.reach true s -> nth_error (FidRef.objs s) i = Some o ->
  FidRef.o_rc o = Z.of_nat (FidRef.o_held o + FidRef.o_owed o + (if FidRef.o_linked o then 1 else 0)).
Proof. exact FidRefProofs.refcount_is_number_of_holders. Qed.
Print Assumptions C11_refcount_is_number_of_holders.

(* the close loop and a pending destroy are never stuck *)
Theorem C11_close_loop_progress : forall s i,
  FidRef.reach true s -> In i (FidRef.snap s) -> FidRef.step true s (FidRef.LUnlinkClose i) <> None.
Proof. exact FidRefProofs.close_loop_progress. Qed.
Print Assumptions C11_close_loop_progress.

(* the reference counting before the repair (7f592a2) violates this: reachable schedules in which a
   fid is reported destroyed twice at a disconnect, never, or twice after a racing lookup *)
Theorem C11_old_double_destroy_at_disconnect : exists ls s o,
  FidRef.run false FidRef.init ls = Some s /\ In o (FidRef.objs s) /\ FidRef.o_destroyed o = 2.
Proof. exact FidRefProofs.old_double_destroy_at_disconnect. Qed.
Print Assumptions C11_old_double_destroy_at_disconnect.

Theorem C11_old_leak_after_disconnect : exists ls s o,
  FidRef.run false FidRef.init ls = Some s /\ FidRef.quiescent s /\ In o (FidRef.objs s) /\ FidRef.o_destroyed o = 0.
Proof. exact FidRefProofs.old_leak_after_disconnect. Qed.
Print Assumptions C11_old_leak_after_disconnect.

(* non-vacuity: a quiescent state with a fid created before, during and after the disconnect *)
Theorem C11_quiescent_reachable : exists ls s,
  FidRef.run true FidRef.init ls = Some s /\ FidRef.quiescent s /\ length (FidRef.objs s) = 3.
Proof. exact FidRefProofs.quiescent_reachable. Qed.
Print Assumptions C11_quiescent_reachable.


(* ---- structural parameters read off the CURRENT source (Gen/Shape.v): FidNew marks creating; retain consults
   conn.closed under the connection lock and links; unlink clears linked before its DecRef; DecRef marks dead at
   0, deletes, then FidDestroy; Conn.close sets closed under the lock and unlinks; the post-handlers use retain /
   unlink: the fixed FidRef model ---- *)
Theorem C11_source_is_the_fixed_reference_counting : PFid.fidref_fixed_of_source = true.
Proof. exact PFid.fidref_is_fixed. Qed.
Print Assumptions C11_source_is_the_fixed_reference_counting.

Theorem C11_all_fids_destroyed_exactly_once_in_source : forall s,
  FidRef.reach PFid.fidref_fixed_of_source s -> FidRef.quiescent s ->
  (forall o, In o (FidRef.objs s) -> FidRef.o_destroyed o = 1) /\ FidRef.table s = [].
Proof. exact PFid.quiescent_all_destroyed_once_src. Qed.
Print Assumptions C11_all_fids_destroyed_exactly_once_in_source.


(* ---- a modelling assumption about the shape of the CURRENT source (Gen/Shape.v), re-checked on every run ---- *)
(* Respond hands the reply over with a select on reqout and done; send keeps serving the queue after a write error; the implementation is called without a library mutex *)
Theorem C11_source_disconnect_paths : ShapeLib.disconnect_paths = true.
Proof. exact PDisc.disconnect_paths_ok. Qed.
Print Assumptions C11_source_disconnect_paths.

(* ---- a modelling assumption about the CURRENT source (Gen/LockFacts.v), re-checked on every run ---- *)
(* the steps the models treat as atomic are critical sections in the source: every access to a mutex-protected
   field (request lists and tag groups, flush chains, request status, the client's pending list and error) holds its mutex *)
Theorem C11_source_critical_sections : V9.Race.Facts.violations = [].
Proof. exact V9.Shape.PLocks.sites_comply_ok. Qed.
Print Assumptions C11_source_critical_sections.

(* Ufs: the one reference taken outside the framework's request bookkeeping (the target of a hard link) is dropped on every path *)
Theorem C11_source_ufs_link_drops_reference : V9.Shape.ShapeLib.ufs_link_drops_reference = true.
Proof. exact V9.Shape.PDisc.ufs_link_drops_reference_ok. Qed.
Print Assumptions C11_source_ufs_link_drops_reference.
