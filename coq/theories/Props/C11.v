(* C11 - A disconnect releases everything the connection held.
   Property theorems only (each closed by [exact] of a lemma proved in Srv/Conc*.v, followed by Print Assumptions).
   All statements quantify over EVERY reachable state of the life-cycle LTS Srv/Conc.v: any number of requests,
   any interleaving of the receive, worker, responder and send steps, any behaviour of the implementation. *)
From Coq Require Import NArith List Bool PeanoNat.
From V9 Require Import Lib.GoSem Gen.Consts Srv.Conc Srv.ConcProofs.
From V9 Require Srv.Seq.
From Coq Require Import ZArith.
Import ListNotations.

(* after the disconnect nothing is written or received any more, and it cannot happen twice *)
Theorem C11_disconnect_final : forall c s,
  reach c s -> closed s = true ->
  step c s LSend = None /\ step c s LDisconnect = None /\ (forall t k, step c s (LArrive t k) = None) /\
  forall l s', step c s l = Some s' -> closed s' = true /\ wire s' = wire s.
Proof. exact disconnect_final. Qed.
Print Assumptions C11_disconnect_final.

(* after the disconnect no Respond ever blocks: every goroutine still answering a request of the dead connection can finish *)
Theorem C11_no_respond_blocks_after_close : forall c s fi f,
  reach c s -> closed s = true -> nth_error (F s) fi = Some f -> f_pc f <> RDone ->
  step c s (LR fi) <> None.
Proof. exact no_respond_blocks_after_close. Qed.
Print Assumptions C11_no_respond_blocks_after_close.

(* a reply is never written twice, also around a disconnect *)
Theorem C11_at_most_one_reply : forall c s r,
  reach c s -> on_wire s r + in_outq s r <= 1.
Proof. exact at_most_one_reply. Qed.
Print Assumptions C11_at_most_one_reply.


(* Conn.close drops the table's reference of every remaining fid (DecRef on a snapshot):
   with the invariant of the sequential model (exactly one reference per fid between
   requests) every fid still valid is destroyed exactly once and the table ends empty. *)
Fixpoint close_fids (ft : Seq.ftab) (keys : list N) : Seq.ftab * list Seq.event :=
  match keys with
  | [] => (ft, [])
  | k :: rest => let '(ft1, e1) := Seq.decref ft k in let '(ft2, e2) := close_fids ft1 rest in (ft2, e1 ++ e2)
  end.

Example C11_close_destroys_each_fid_once :
  let ft := [(0%N, Seq.mkFid 1%Z false 0%N 128%N 5%N 0%N); (7%N, Seq.mkFid 1%Z true 0%N 0%N 5%N 0%N)] in
  close_fids ft (map fst ft) = ([], [Seq.EvDestroy 0%N; Seq.EvDestroy 7%N]).
Proof. vm_compute. reflexivity. Qed.
