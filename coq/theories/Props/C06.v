(* C06 - No client behaviour can crash the server.
   Property theorems only.  The property is a composition: every stage a client's bytes
   pass through is total and keeps its slicing / pointer preconditions, for every input
   and every state:
     bytes -> receive loop (framing)      Recv/RecvProofs.v   (also Props/C13.v)
           -> decoder                     Codec/UnpackProofs.v (also Props/C02.v)
           -> request path of the framework, whatever the implementation answers
                                          Srv/CrashProofs.v over the model of Srv/Seq.v
           -> fids under pipelined (concurrently executing) requests
                                          Srv/FidVis.v
           -> Ufs directory window arithmetic
                                          Ufs/DirProofs.v      (also Props/C15.v)
   What a theorem cannot show (the Go runtime aborting the process) is watched from
   outside by the crash harness: servers in a child process, exit status, stderr,
   liveness probe and bystander connections. *)
From Coq Require Import NArith ZArith List Bool PeanoNat.
From V9 Require Shape.ShapeLib Shape.PFid Shape.POrder Shape.PVersion.
From V9 Require Import Lib.GoSem Lib.Bytes Gen.Consts Codec.Msg Codec.Unpack Codec.UnpackProofs
     Recv.Recv Recv.RecvProofs Srv.Seq Srv.SeqSpec Srv.SeqProofs Srv.Crash Srv.CrashProofs Srv.FidVis
     Ufs.DirWindow Ufs.DirProofs.
Import ListNotations.

(* --- decoder: any byte string, either dialect: an error or a message, never a panic --- *)
Theorem C06_decode_never_panics : forall dotu buf,
  unpack dotu buf <> Panic /\ unpack dotu buf <> OutOfFuel.
Proof. exact unpack_no_panic. Qed.
Print Assumptions C06_decode_never_panics.

Theorem C06_decode_stat_never_panics : forall dotu buf,
  unpack_dir dotu buf <> Panic /\ unpack_dir dotu buf <> OutOfFuel.
Proof. exact unpack_dir_no_panic. Qed.
Print Assumptions C06_decode_stat_never_panics.

(* --- receive loop: whatever the stream and however it is cut, only well-framed messages
   within msize are handed on, the loop never issues an empty Read, and a bad frame
   (size < 7 or > msize, undecodable) ends this connection's loop: the loop's state is
   per connection, nothing shared is touched --- *)
Theorem C06_only_framed_messages_delivered : forall negot p stream its p' rest bad it,
  negot_ok negot -> (c_IOHDRSZ <= p_msize p)%N ->
  Recv.frames negot true (S (length stream)) p stream = (its, p', rest, bad) ->
  In it its ->
  (7 <= len (i_frame it) /\ le_dec (firstn 4 (i_frame it)) = len (i_frame it) /\ len (i_frame it) <= p_msize p)%N.
Proof. exact delivered_items_framed. Qed.
Print Assumptions C06_only_framed_messages_delivered.

Theorem C06_receive_loop_total : forall negot bufmul p segs,
  negot_ok negot -> (1 <= bufmul)%N -> (c_IOHDRSZ <= p_msize p)%N ->
  Forall (fun s => s <> []) segs ->
  forall s its its' p' rest bad,
  Recv.run negot true bufmul (S (length (concat segs) + length segs)) (rinit bufmul p) segs = (s, its) ->
  Recv.frames negot true (S (length (concat segs))) p (concat segs) = (its', p', rest, bad) ->
  its = its' /\ r_st s <> ReadEmpty /\
  (bad = true <-> r_st s = ClosedBad) /\
  (bad = false -> r_acc s = rest /\ r_par s = p').
Proof. exact run_segmentation_invariant. Qed.
Print Assumptions C06_receive_loop_total.

(* --- request path: for EVERY history of requests (any message, any field values
   including NOFID and unknown / stale / reused fids, any order, any negotiated msize
   >= IOHDRSZ) and whatever the implementation answers, at every request: the fid
   pointers a handler dereferences are set; requests naming NOFID or no fid are refused
   before a handler runs; the error text is sliced with a non-negative bound; the reply
   is a packed message of 7..msize bytes when the tag is patched in --- *)
Theorem C06_request_path_sites_safe : forall cfg h c,
  CInv cfg c -> run_sites_ok cfg c h = true.
Proof. exact run_sites_ok_all. Qed.
Print Assumptions C06_request_path_sites_safe.

Theorem C06_request_path_sites_safe_from_start : forall msize dotu auth h,
  (msize <= u32max)%N ->
  run_sites_ok (start_cfg msize dotu auth) (conn_init (start_cfg msize dotu auth)) h = true.
Proof. exact run_sites_ok_from_start. Qed.
Print Assumptions C06_request_path_sites_safe_from_start.

(* --- pipelined requests: a fid whose creating request is unanswered is never handed
   to a handler, so the implementation only sees fids it has set up - for every
   interleaving; the original FidGet (no guard) is refuted by a 4-step schedule --- *)
Theorem C06_handler_sees_only_set_up_fids : forall ls t' seen,
  FidVis.run true [] ls = Some (t', seen) -> Forall (fun e => e_setup e = true) seen.
Proof. exact handler_sees_only_set_up_fids_from_start. Qed.
Print Assumptions C06_handler_sees_only_set_up_fids.

Theorem C06_unguarded_fidget_refuted : exists ls t' seen,
  FidVis.run false [] ls = Some (t', seen) /\ ~ Forall (fun e => e_setup e = true) seen.
Proof. exact unguarded_refuted. Qed.
Print Assumptions C06_unguarded_fidget_refuted.

(* --- Ufs directory reads: any offset (uint64), any count (uint32): a window, "bad offset",
   "too small", never an out-of-range slice --- *)
Theorem C06_dir_window_never_panics : forall ends off cnt,
  wf_ends ends -> (0 <= off)%Z -> (0 <= cnt)%Z -> dir_window ends off cnt <> DPanic.
Proof. exact dir_window_no_panic. Qed.
Print Assumptions C06_dir_window_never_panics.

(* the count guard is exact in uint32 arithmetic: Tread / Twrite with count 2^32-16 is refused *)
Theorem C06_huge_count_refused : forall msize,
  (c_IOHDRSZ <= msize)%N -> (msize <= u32max)%N -> count_too_large msize 4294967280 = true.
Proof. exact huge_count_refused. Qed.
Print Assumptions C06_huge_count_refused.


(* ---- structural parameters read off the CURRENT source (Gen/Shape.v) ---- *)

(* FidGet looks at creating / dead under the fid's lock before it counts a reference: the guarded FidVis model *)
Theorem C06_handler_sees_only_set_up_fids_in_source : forall ls t' seen,
  FidVis.run PFid.fidvis_guard_of_source [] ls = Some (t', seen) -> Forall (fun e => e_setup e = true) seen.
Proof. exact PFid.handler_sees_only_set_up_fids_src. Qed.
Print Assumptions C06_handler_sees_only_set_up_fids_in_source.

(* a recycled reply buffer's type is reset before the request is handed on (post-handlers of a request that
   was cancelled before it started see no stale reply), and such a request is answered and not executed *)
Theorem C06_source_resets_recycled_reply_and_skips_cancelled :
  ShapeLib.recv_resets_reply_type = true /\ ShapeLib.cancelled_not_executed = true.
Proof. split; [exact POrder.recv_resets_reply_type_ok | exact POrder.cancelled_not_executed_ok]. Qed.
Print Assumptions C06_source_resets_recycled_reply_and_skips_cancelled.


(* ---- a modelling assumption about the shape of the CURRENT source (Gen/Shape.v), re-checked on every run ---- *)
(* a later Tversion cannot raise the connection's msize again: reply buffers allocated earlier are never smaller than what a later reply may need *)
Theorem C06_source_msize_only_shrinks : ShapeLib.version_negotiation = true.
Proof. exact PVersion.version_negotiation_ok. Qed.
Print Assumptions C06_source_msize_only_shrinks.
