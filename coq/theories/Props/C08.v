(* C08 - Independent requests progress independently; shared tags run FIFO.
   Property theorems only (each closed by [exact] of a lemma proved in Srv/Conc*.v, followed by Print Assumptions).
   All statements quantify over EVERY reachable state of the life-cycle LTS Srv/Conc.v: any number of requests,
   any interleaving of the receive, worker, responder and send steps, any behaviour of the implementation. *)
From Coq Require Import NArith List Bool PeanoNat.
From V9 Require Shape.ShapeLib Shape.PDisc.
From V9 Require Race.Facts Shape.PLocks.
From V9 Require Import Lib.GoSem Gen.Consts Srv.Conc Srv.ConcProofs.
Import ListNotations.

(* a Respond in progress can always be completed by steps of that invocation and of the send goroutine alone: no other request, blocked or slow in the implementation, is needed *)
Theorem C08_frame_can_finish : forall c s fi,
  reach c s -> closed s = false -> fi < length (F s) ->
  exists ls s',
    only_labels (fun l => match l with LR x => x =? fi | LSend => true | _ => false end) ls /\
    run c s ls = Some s' /\ frame_pc s' fi = Some RDone.
Proof. exact frame_can_finish. Qed.
Print Assumptions C08_frame_can_finish.

(* a worker that does not wait for the implementation can always take its next step *)
Theorem C08_worker_step_enabled : forall c s r q,
  reach c s -> getq s r = Some q ->
  match q_pc q, q_kind q with
  | WSpawned, _ => step c s (LWStart r) <> None
  | WProc, KFlush _ => step c s (LF1 r) <> None
  | WProc, KVersion => step c s (LV1 r) <> None
  | WProc, KOp => step c s (LOpCall r) <> None /\ forall v, step c s (LReject r v) <> None
  | WF2 _, _ => step c s (LF2 r) <> None
  | WF3 _ _, _ => step c s (LF3 r) <> None
  | WTail, _ => step c s (LWTail r) <> None
  | _, _ => True
  end.
Proof. exact worker_step_enabled. Qed.
Print Assumptions C08_worker_step_enabled.

(* requests sharing a tag: the newer one is not started before the older one's reply has been queued *)
Theorem C08_same_tag_fifo : forall c s a b qb,
  reach c s -> closed s = false ->
  (forall r q, getq s r = Some q -> q_flush q = false /\ q_kind q = KOp) ->
  getq s b = Some qb -> q_after qb = Some a -> q_pc qb <> WWait ->
  on_wire s a + in_outq s a = 1.
Proof. exact same_tag_fifo. Qed.
Print Assumptions C08_same_tag_fifo.

(* ... and their replies appear on the wire in arrival order *)
Theorem C08_same_tag_wire_order : forall c s a b qb i j,
  reach c s ->
  (forall r q, getq s r = Some q -> q_flush q = false /\ q_kind q = KOp) ->
  getq s b = Some qb -> q_after qb = Some a ->
  wire_index s a = Some i -> wire_index s b = Some j -> i < j.
Proof. exact same_tag_wire_order. Qed.
Print Assumptions C08_same_tag_wire_order.

Example C08_nonvacuous :
  exists s, run (mkCfgC 0 true) init
    [LArrive 5 KOp; LArrive 5 KOp; LWStart 0; LOpCall 0; LAnswer 0 1; LR 0; LR 0; LR 0; LSend; LR 0; LR 0; LWStart 1]%N = Some s /\
  map q_pc (R s) = [WInOp; WProc].
Proof. eexists. vm_compute. repeat split. Qed.


(* ---- a modelling assumption about the shape of the CURRENT source (Gen/Shape.v), re-checked on every run ---- *)
(* DecRef and Conn.close release their mutex before they call FidDestroy / ConnClosed; the hand-over of a reply is a select with the done channel *)
Theorem C08_source_calls_the_implementation_without_a_mutex : ShapeLib.disconnect_paths = true.
Proof. exact PDisc.disconnect_paths_ok. Qed.
Print Assumptions C08_source_calls_the_implementation_without_a_mutex.

(* ---- a modelling assumption about the CURRENT source (Gen/LockFacts.v), re-checked on every run ---- *)
(* the steps the models treat as atomic are critical sections in the source: every access to a mutex-protected
   field (request lists and tag groups, flush chains, request status, the client's pending list and error) holds its mutex *)
Theorem C08_source_critical_sections : V9.Race.Facts.violations = [].
Proof. exact V9.Shape.PLocks.sites_comply_ok. Qed.
Print Assumptions C08_source_critical_sections.
