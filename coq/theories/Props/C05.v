(* C05 - Protocol rules are enforced before the implementation is called.
   Property theorems only (each closed by [exact] of a lemma proved elsewhere, followed by Print Assumptions). *)
From Coq Require Import NArith ZArith List Bool.
From V9 Require Shape.ShapeLib Shape.PSeq Shape.POrder.
From V9 Require Import Lib.GoSem Lib.Bytes Gen.Consts Codec.Msg Srv.Seq Srv.SeqSpec Srv.SeqProofs.
Import ListNotations.
Local Open Scope N_scope.

(* the 32-bit guard as written equals the limit over the naturals, for EVERY count *)
Theorem C05_count_guard_exact : forall msize cnt,
  c_IOHDRSZ <= msize -> msize <= u32max ->
  count_too_large msize cnt = negb (cnt + c_IOHDRSZ <=? msize).
Proof. exact count_guard_exact. Qed.
Print Assumptions C05_count_guard_exact.

(* a request reaches the implementation iff its fid is valid and the rule table of the statement allows it *)
Theorem C05_forward_iff_rules : forall cfg c t sc c' r ev,
  CInv cfg c -> seq_step cfg c t sc = (c', r, ev) ->
  forwarded ev = fid_ok c t && rules_ok cfg c t sc.
Proof. exact forward_iff_rules. Qed.
Print Assumptions C05_forward_iff_rules.

(* forwarded at most once, with the fid, user and arguments the client named *)
Theorem C05_forward_faithful : forall cfg c t sc c' r ev,
  CInv cfg c -> seq_step cfg c t sc = (c', r, ev) ->
  (count_fwd ev <= 1)%nat /\
  (forall t' k u, In (EvFwd t' k u) ev ->
     t' = t /\ k = tfid t /\
     (is_tattach t = false -> exists fr, fget (c_fids c) k = Some fr /\ u = f_user fr)) /\
  (forall t' k, In (EvAuth t' k) ev -> t' = t).
Proof. exact forward_faithful. Qed.
Print Assumptions C05_forward_faithful.

(* a refused request is answered with an error *)
Theorem C05_refuse_is_error : forall cfg c t sc c' r ev,
  CInv cfg c -> seq_step cfg c t sc = (c', r, ev) ->
  forwarded ev = false ->
  match t with Tversion_ _ _ | Tflush_ _ => True | _ => is_rerror r = true end.
Proof. exact refuse_is_error. Qed.
Print Assumptions C05_refuse_is_error.

(* with AuthOps no attach reaches the implementation unless AuthCheck accepted it *)
Theorem C05_auth_gate : forall cfg c t sc c' r ev t' k u,
  CInv cfg c -> s_auth cfg = true -> seq_step cfg c t sc = (c', r, ev) ->
  In (EvFwd t' k u) ev -> is_tattach t' = true ->
  sc_authcheck sc = None /\ exists a, In (EvAuthCheck k a) ev.
Proof. exact auth_gate. Qed.
Print Assumptions C05_auth_gate.

(* effects of a request are visible to the next one: every step re-establishes the invariant the rules are evaluated in *)
Theorem C05_cinv_step : forall cfg c t sc c' r ev,
  CInv cfg c -> seq_step cfg c t sc = (c', r, ev) -> CInv cfg c'.
Proof. exact cinv_step. Qed.
Print Assumptions C05_cinv_step.

(* Non-vacuity: the historical wrap-around count is refused. *)
Example C05_wraparound_count_refused :
  let cfg := start_cfg 8192 true false in
  let c := mkConn 8192 true [(1, mkFid 1 true 2 0 5 0)] in
  forwarded (snd (seq_step cfg c (Tread_ 1 0 4294967280) (mkScript (AOk (Rread_ [])) None))) = false /\
  forwarded (snd (seq_step cfg c (Tread_ 1 0 8168) (mkScript (AOk (Rread_ [])) None))) = true.
Proof. vm_compute. split; reflexivity. Qed.


(* ---- the fid attributes the rules consult are determined by the protocol history, not by incidental
   behaviour of the framework: whether a fid is open and in which mode, and its type bits, follow from
   the requests and the replies they got (ospec_step / tspec_step in Srv/SeqSpec.v are functions of the
   request and the reply only) ---- *)
Theorem C05_open_state_follows_history : forall cfg c t sc c' r ev,
  CInv cfg c -> seq_step cfg c t sc = (c', r, ev) ->
  veq (oabs (c_fids c')) (ospec_step (oabs (c_fids c)) t r).
Proof. exact open_state_follows_history. Qed.
Print Assumptions C05_open_state_follows_history.

Theorem C05_open_state_follows_history_run : forall cfg h c c' out,
  CInv cfg c -> seq_run cfg c h = (c', out) ->
  length out = length h /\
  veq (oabs (c_fids c')) (ospec_run (oabs (c_fids c)) (combine (map fst h) (map fst out))).
Proof. exact open_state_follows_history_run. Qed.
Print Assumptions C05_open_state_follows_history_run.

Theorem C05_fid_type_follows_history_run : forall cfg h c c' out,
  CInv cfg c -> seq_run cfg c h = (c', out) ->
  length out = length h /\
  veq (tabs (c_fids c')) (tspec_run (tabs (c_fids c)) (combine (map fst h) (map fst out))).
Proof. exact fid_type_follows_history_run. Qed.
Print Assumptions C05_fid_type_follows_history_run.

(* a request answered with an error (other than Tremove) changes neither the fid set nor the open state nor the type of any fid *)
Theorem C05_error_changes_no_attribute : forall cfg c t sc c' r ev,
  CInv cfg c -> seq_step cfg c t sc = (c', r, ev) ->
  is_rerror r = true -> (forall fid, t <> Tremove_ fid) ->
  veq (abs (c_fids c')) (abs (c_fids c)) /\
  veq (oabs (c_fids c')) (oabs (c_fids c)) /\
  veq (tabs (c_fids c')) (tabs (c_fids c)).
Proof. exact error_changes_no_attribute. Qed.
Print Assumptions C05_error_changes_no_attribute.

(* opening an open fid: refused, nothing forwarded, and the fid STAYS open (the defect repaired by 07e052e: it was closed) *)
Theorem C05_second_open_refused : forall cfg c fid mode fr sc c' r ev,
  CInv cfg c -> fget (c_fids c) fid = Some fr -> f_opened fr = true ->
  seq_step cfg c (Topen_ fid mode) sc = (c', r, ev) ->
  is_rerror r = true /\ forwarded ev = false /\
  veq (oabs (c_fids c')) (oabs (c_fids c)) /\ veq (tabs (c_fids c')) (tabs (c_fids c)).
Proof. exact second_open_refused. Qed.
Print Assumptions C05_second_open_refused.

(* Non-vacuity, and the three repaired defects as concrete histories: a refused second Topen leaves the fid open
   (a write through it is still forwarded, a walk from it still refused); a fid opened OEXEC is not open for writing *)
Example C05_open_state_examples :
  let cfg := start_cfg 8192 true false in
  let q := mkQid 0 0 7 in
  let c := mkConn 8192 true [(1, mkFid 1 true 2 0 5 0); (2, mkFid 1 true 3 0 5 0)] in
  let '(c1, r1, ev1) := seq_step cfg c (Topen_ 1 0) (mkScript (AOk (Ropen_ q 0)) None) in
  is_rerror r1 = true /\ forwarded ev1 = false /\
  forwarded (snd (seq_step cfg c1 (Twrite_ 1 0 [1%N]) (mkScript (AOk (Rwrite_ 1)) None))) = true /\
  forwarded (snd (seq_step cfg c1 (Twalk_ 1 3 []) (mkScript (AOk (Rwalk_ [])) None))) = false /\
  forwarded (snd (seq_step cfg c1 (Twrite_ 2 0 [1%N]) (mkScript (AOk (Rwrite_ 1)) None))) = false.
Proof. vm_compute. repeat split; reflexivity. Qed.

(* ---- a modelling assumption about the shape of the CURRENT source (Gen/Shape.v), re-checked on every run ---- *)
(* every refusal of walk / open / create precedes the change of the fid table or of the fid (a refused request leaves no state behind) *)
Theorem C05_source_handlers_check_before_they_change : ShapeLib.handlers_check_before_they_change = true.
Proof. exact PSeq.handlers_check_before_they_change_ok. Qed.
Print Assumptions C05_source_handlers_check_before_they_change.

(* the reply is handed to the send goroutine only after the post-handlers ran: the effects of a request (open state, new fids, clunked fids) are in place before its reply can be seen, hence visible to every request sent after the reply (order of the steps of Respond in the CURRENT source) *)
Theorem C05_source_respond_order : ShapeLib.respond_order = true.
Proof. exact POrder.respond_order_ok. Qed.
Print Assumptions C05_source_respond_order.
