(* C05 - Protocol rules are enforced before the implementation is called.
   Property theorems only (each closed by [exact] of a lemma proved elsewhere, followed by Print Assumptions). *)
From Coq Require Import NArith ZArith List Bool.
From V9 Require Shape.ShapeLib Shape.PSeq.
From V9 Require Import Lib.GoSem Lib.Bytes Gen.Consts Codec.Msg Srv.Seq Srv.SeqSpec Srv.SeqProofs.
Import ListNotations.
Local Open Scope N_scope.

(* the 32-bit guard as written equals the limit over the naturals, for EVERY count *)
Theorem C05_count_guard_exact : forall msize cnt,
  c_IOHDRSZ <= msize -> msize <= u32max ->
  count_too_large msize cnt = negb (cnt + c_IOHDRSZ <=? msize).
Proof. exact count_guard_exact. Qed.
Print Assumptions C05_count_guard_exact.

(* a request reaches the implementation iff its fid is valid and the rule table of the statement allows it *)
Theorem C05_forward_iff_rules : forall cfg c t sc c' r ev,
  CInv cfg c -> seq_step cfg c t sc = (c', r, ev) ->
  forwarded ev = fid_ok c t && rules_ok cfg c t sc.
Proof. exact forward_iff_rules. Qed.
Print Assumptions C05_forward_iff_rules.

(* forwarded at most once, with the fid, user and arguments the client named *)
Theorem C05_forward_faithful : forall cfg c t sc c' r ev,
  CInv cfg c -> seq_step cfg c t sc = (c', r, ev) ->
  (count_fwd ev <= 1)%nat /\
  (forall t' k u, In (EvFwd t' k u) ev ->
     t' = t /\ k = tfid t /\
     (is_tattach t = false -> exists fr, fget (c_fids c) k = Some fr /\ u = f_user fr)) /\
  (forall t' k, In (EvAuth t' k) ev -> t' = t).
Proof. exact forward_faithful. Qed.
Print Assumptions C05_forward_faithful.

(* a refused request is answered with an error *)
Theorem C05_refuse_is_error : forall cfg c t sc c' r ev,
  CInv cfg c -> seq_step cfg c t sc = (c', r, ev) ->
  forwarded ev = false ->
  match t with Tversion_ _ _ | Tflush_ _ => True | _ => is_rerror r = true end.
Proof. exact refuse_is_error. Qed.
Print Assumptions C05_refuse_is_error.

(* with AuthOps no attach reaches the implementation unless AuthCheck accepted it *)
Theorem C05_auth_gate : forall cfg c t sc c' r ev t' k u,
  CInv cfg c -> s_auth cfg = true -> seq_step cfg c t sc = (c', r, ev) ->
  In (EvFwd t' k u) ev -> is_tattach t' = true ->
  sc_authcheck sc = None /\ exists a, In (EvAuthCheck k a) ev.
Proof. exact auth_gate. Qed.
Print Assumptions C05_auth_gate.

(* effects of a request are visible to the next one: every step re-establishes the invariant the rules are evaluated in *)
Theorem C05_cinv_step : forall cfg c t sc c' r ev,
  CInv cfg c -> seq_step cfg c t sc = (c', r, ev) -> CInv cfg c'.
Proof. exact cinv_step. Qed.
Print Assumptions C05_cinv_step.

(* Non-vacuity: the historical wrap-around count is refused. *)
Example C05_wraparound_count_refused :
  let cfg := start_cfg 8192 true false in
  let c := mkConn 8192 true [(1, mkFid 1 true 2 0 5 0)] in
  forwarded (snd (seq_step cfg c (Tread_ 1 0 4294967280) (mkScript (AOk (Rread_ [])) None))) = false /\
  forwarded (snd (seq_step cfg c (Tread_ 1 0 8168) (mkScript (AOk (Rread_ [])) None))) = true.
Proof. vm_compute. split; reflexivity. Qed.


(* ---- a modelling assumption about the shape of the CURRENT source (Gen/Shape.v), re-checked on every run ---- *)
(* every refusal of walk / open / create precedes the change of the fid table or of the fid (a refused request leaves no state behind) *)
Theorem C05_source_handlers_check_before_they_change : ShapeLib.handlers_check_before_they_change = true.
Proof. exact PSeq.handlers_check_before_they_change_ok. Qed.
Print Assumptions C05_source_handlers_check_before_they_change.
