(* Host paths as Ufs computes them (ufs.go: Attach, Walk, Create, Wstat) with Go's
   lexical path functions (filepath.Join / Clean / Dir, path.Split,
   strings.Contains / HasPrefix).  An absolute host path is the list of its
   components; client strings (arbitrary bytes) are split at '/'.  The kernel
   resolves such a path component by component; '.' and '..' lexically as long as
   no symbolic link leaves the tree (the hypothesis of C18).
   Model definitions only. *)
From Coq Require Import NArith List Bool PeanoNat.
From V9 Require Import Lib.GoSem Lib.Bytes.
Import ListNotations.
Local Open Scope N_scope.

Definition comp := bytes.
Definition hpath := list comp.

Definition slash : N := 47.
Definition dot : comp := [46].
Definition dotdot : comp := [46; 46].

Definition comp_eqb (a b : comp) : bool := bytes_eqb a b.

(* strings.Split(s, "/") without the empty elements *)
Fixpoint split_acc (s : bytes) (cur : comp) : list comp :=
  match s with
  | [] => match cur with [] => [] | _ => [rev cur] end
  | c :: t => if c =? slash then
                match cur with [] => split_acc t [] | _ => rev cur :: split_acc t [] end
              else split_acc t (c :: cur)
  end.
Definition split_slash (s : bytes) : list comp := split_acc s [].

Definition has_slash (s : bytes) : bool := existsb (fun c => c =? slash) s.

(* func validName(name string) bool *)
Definition valid_name (s : bytes) : bool :=
  negb (match s with [] => true | _ => false end)
  && negb (comp_eqb s dot) && negb (comp_eqb s dotdot) && negb (has_slash s).

(* filepath.Clean of an absolute path: '.' dropped, '..' pops (and stays at "/") *)
Fixpoint clean_from (stack : list comp) (cs : list comp) : list comp :=
  match cs with
  | [] => rev stack
  | c :: t =>
    if comp_eqb c dot then clean_from stack t
    else if comp_eqb c dotdot then clean_from (tl stack) t
    else clean_from (c :: stack) t
  end.
Definition clean (p : hpath) : hpath := clean_from [] p.

(* a path without '.' / '..' components *)
Definition is_clean (p : hpath) : bool :=
  forallb (fun c => negb (comp_eqb c dot) && negb (comp_eqb c dotdot)) p.

Fixpoint prefixb (a b : hpath) : bool :=
  match a, b with
  | [], _ => true
  | x :: a', y :: b' => comp_eqb x y && prefixb a' b'
  | _, _ => false
  end.

(* func (ufs *Ufs) inside(p string) bool, on cleaned paths *)
Definition inside (root p : hpath) : bool := prefixb root p.

Definition path_eqb (a b : hpath) : bool := (length a =? length b)%nat && prefixb a b.

(* filepath.Dir of a cleaned absolute path *)
Definition dir_of (p : hpath) : hpath := removelast p.

(* ---------- the paths the handlers compute ---------- *)
(* Attach: filepath.Join(ufs.Root, filepath.Join("/", tc.Aname)) *)
Definition attach_path (root : hpath) (aname : bytes) : hpath :=
  clean (root ++ clean (split_slash aname)).

(* Walk, one element: the path handed to os.Lstat (None: no such entry by name) *)
Definition walk_step (root path : hpath) (wname : bytes) : option hpath :=
  if comp_eqb wname dotdot then
    if path_eqb (clean path) (clean root) then Some path else Some (dir_of (clean path))
  else if comp_eqb wname dot then Some path
  else if valid_name wname then Some (path ++ [wname])
  else None.

(* Create: fid.path + "/" + tc.Name after the validName test *)
Definition create_path (path : hpath) (name : bytes) : option hpath :=
  if valid_name name then Some (path ++ [name]) else None.

(* symlink target accepted by Create *)
Definition symlink_ok (ext : bytes) : bool :=
  negb (match ext with c :: _ => c =? slash | [] => false end)
  && negb (existsb (fun c => comp_eqb c dotdot) (split_slash ext)).

(* where an accepted link leads: relative to the directory that holds it *)
Definition symlink_resolves (linkdir : hpath) (ext : bytes) : hpath :=
  clean (linkdir ++ split_slash ext).

(* Wstat rename target, or None when refused *)
Definition rename_dest (root path : hpath) (name : bytes) : option hpath :=
  let d := match name with
           | c :: _ => if c =? slash then clean (root ++ clean (split_slash name))
                       else clean (dir_of path ++ split_slash name)
           | [] => clean path
           end in
  if inside (clean root) d && inside (clean root) (clean path) && negb (path_eqb (clean path) (clean root))
  then Some d else None.

(* ---------- sessions: which host paths a request sequence touches ---------- *)
Inductive ureq :=
| UAttach (fid : N) (aname : bytes)
| UWalk (fid newfid : N) (names : list bytes)
| UCreate (fid : N) (name : bytes) (symlink_target : option bytes)
| URename (fid : N) (name : bytes)
| UOther (fid : N).                    (* open/read/write/stat/remove/chmod/...: act on the fid's path *)

Definition fidmap := list (N * hpath).
Fixpoint fm_get (m : fidmap) (k : N) : option hpath :=
  match m with [] => None | (k', p) :: t => if k' =? k then Some p else fm_get t k end.
Definition fm_set (m : fidmap) (k : N) (p : hpath) : fidmap := (k, p) :: m.

(* Ufs.Walk: Lstat of each successive path; [exists_] is the file system's answer *)
Fixpoint walk_loop (exists_ : hpath -> bool) (root path : hpath) (names : list bytes)
  : nat * hpath * list hpath (* walked, reached, paths handed to Lstat *) :=
  match names with
  | [] => (O, path, [])
  | w :: rest =>
    match walk_step root path w with
    | None => (O, path, [])
    | Some p =>
      if exists_ p then
        let '(n, q, touched) := walk_loop exists_ root p rest in (S n, q, p :: touched)
      else (O, path, [p])
    end
  end.

Inductive wres :=
| WErr                       (* first element missing: Rerror *)
| WOk (nqids : nat) (commit : option hpath).   (* Rwalk with nqids qids; Some p: the new fid designates p *)

Definition ufs_walk (exists_ : hpath -> bool) (root path : hpath) (names : list bytes) : wres * list hpath :=
  let '(n, q, touched) := walk_loop exists_ root path names in
  match names with
  | [] => (WOk O (Some path), touched)
  | _ => if (n =? 0)%nat then (WErr, touched)
         else (WOk n (if (n =? length names)%nat then Some q else None), touched)
  end.

(* one request: new fid map and the host paths handed to the operating system.
   [ok] says whether the operation the implementation attempts succeeds (decides
   whether a created/renamed fid moves). *)
Definition ustep (exists_ : hpath -> bool) (root : hpath) (m : fidmap) (r : ureq) (ok : bool)
  : fidmap * list hpath :=
  match r with
  | UAttach fid aname =>
    let p := attach_path root aname in
    (if ok then fm_set m fid p else m, [p])
  | UWalk fid nf names =>
    match fm_get m fid with
    | Some path =>
      let '(res, touched) := ufs_walk exists_ root path names in
      (match res with WOk _ (Some q) => fm_set m nf q | _ => m end, path :: touched)
    | None => (m, [])
    end
  | UCreate fid name tgt =>
    match fm_get m fid with
    | Some path =>
      match create_path path name with
      | Some p =>
        if match tgt with Some e => symlink_ok e | None => true end
        then (if ok then fm_set m fid p else m, [path; p])
        else (m, [path])
      | None => (m, [path])
      end
    | None => (m, [])
    end
  | URename fid name =>
    match fm_get m fid with
    | Some path =>
      match rename_dest root path name with
      | Some d => (if ok then fm_set m fid d else m, [path; d])
      | None => (m, [path])
      end
    | None => (m, [])
    end
  | UOther fid =>
    match fm_get m fid with Some path => (m, [path]) | None => (m, []) end
  end.

Fixpoint urun (exists_ : hpath -> bool) (root : hpath) (m : fidmap) (rs : list (ureq * bool)) : fidmap * list hpath :=
  match rs with
  | [] => (m, [])
  | (r, ok) :: t =>
    let '(m1, t1) := ustep exists_ root m r ok in
    let '(m2, t2) := urun exists_ root m1 t in
    (m2, t1 ++ t2)
  end.

(* ---------- the client's FWalk (clnt_walk.go): 16 names per Twalk ---------- *)
Fixpoint chunks16 (fuel : nat) (names : list bytes) : list (list bytes) :=
  match fuel with
  | O => []
  | S f => match names with
           | [] => []
           | _ => firstn 16 names :: chunks16 f (skipn 16 names)
           end
  end.

(* result: the path the new fid designates, or failure (the new fid is clunked) *)
Fixpoint fwalk_chunks (exists_ : hpath -> bool) (root path : hpath) (cs : list (list bytes)) : option hpath :=
  match cs with
  | [] => Some path
  | c :: rest =>
    match fst (ufs_walk exists_ root path c) with
    | WOk n (Some q) => if (n =? length c)%nat then fwalk_chunks exists_ root q rest else None
    | _ => None
    end
  end.

(* FWalk(path): strip leading '/', drop empty names, walk in chunks of 16 from the root fid *)
Definition fwalk (exists_ : hpath -> bool) (root rootfid_path : hpath) (p : bytes) : option hpath :=
  let names := split_slash p in
  match names with
  | [] => match fst (ufs_walk exists_ root rootfid_path []) with WOk _ (Some q) => Some q | _ => None end
  | _ => fwalk_chunks exists_ root rootfid_path (chunks16 (S (length names)) names)
  end.
