(* Proofs about the Ufs path and handler-decision models (Ufs/Path.v, Ufs/Handlers.v). *)
From Coq Require Import NArith List Bool PeanoNat Lia.
From V9 Require Import Lib.GoSem Lib.Bytes Gen.Consts Ufs.Path Ufs.Handlers.
Import ListNotations.
Local Open Scope N_scope.

(* ========== helpers: component equality ========== *)
Lemma bytes_eqb_iff : forall a b, bytes_eqb a b = true <-> a = b.
Proof.
  unfold bytes_eqb. induction a as [|x a IH]; intros [|y b]; simpl; split; intro H;
    try reflexivity; try discriminate.
  - apply andb_true_iff in H. destruct H as [H1 H2].
    apply andb_true_iff in H2. destruct H2 as [H2 H3].
    apply N.eqb_eq in H2. subst. f_equal. apply IH. rewrite H1, H3. reflexivity.
  - inversion H; subst. rewrite N.eqb_refl. simpl. apply IH. reflexivity.
Qed.

Lemma bytes_eqb_refl : forall a, bytes_eqb a a = true.
Proof. intros. apply bytes_eqb_iff. reflexivity. Qed.

Lemma comp_eqb_iff : forall a b, comp_eqb a b = true <-> a = b.
Proof. intros. unfold comp_eqb. apply bytes_eqb_iff. Qed.

Lemma comp_eqb_refl : forall a, comp_eqb a a = true.
Proof. intros. apply comp_eqb_iff. reflexivity. Qed.

#[local] Arguments comp_eqb : simpl never.

(* ========== helpers: is_clean / clean_from ========== *)
Definition nd (c : comp) : bool := negb (comp_eqb c dot) && negb (comp_eqb c dotdot).

Lemma is_clean_nd : forall p, is_clean p = forallb nd p.
Proof. reflexivity. Qed.

Lemma nd_true : forall c, nd c = true -> comp_eqb c dot = false /\ comp_eqb c dotdot = false.
Proof.
  unfold nd. intros c H. apply andb_true_iff in H. destruct H as [H1 H2].
  apply negb_true_iff in H1. apply negb_true_iff in H2. auto.
Qed.

Lemma is_clean_cons : forall c p, is_clean (c :: p) = nd c && is_clean p.
Proof. reflexivity. Qed.

Lemma is_clean_app : forall a b, is_clean (a ++ b) = is_clean a && is_clean b.
Proof. intros. unfold is_clean. apply forallb_app. Qed.

Lemma is_clean_rev : forall a, is_clean (rev a) = is_clean a.
Proof.
  induction a as [|x a IH]; [reflexivity|].
  cbn [rev]. rewrite is_clean_app, IH, !is_clean_cons.
  change (is_clean []) with true. rewrite andb_true_r. apply andb_comm.
Qed.

Lemma is_clean_tl : forall s, is_clean s = true -> is_clean (tl s) = true.
Proof.
  intros [|x s] H; [exact H|]. rewrite is_clean_cons in H.
  apply andb_true_iff in H. apply H.
Qed.

Lemma clean_from_is_clean : forall cs stack,
  is_clean stack = true -> is_clean (clean_from stack cs) = true.
Proof.
  induction cs as [|c cs IH]; intros stack H; cbn [clean_from].
  - rewrite is_clean_rev. exact H.
  - destruct (comp_eqb c dot) eqn:E1; [apply IH; exact H|].
    destruct (comp_eqb c dotdot) eqn:E2.
    + apply IH. apply is_clean_tl. exact H.
    + apply IH. rewrite is_clean_cons, H. unfold nd. rewrite E1, E2. reflexivity.
Qed.

Lemma clean_from_app : forall a s b,
  clean_from s (a ++ b) = clean_from (rev (clean_from s a)) b.
Proof.
  induction a as [|c a IH]; intros s b; cbn [clean_from app].
  - rewrite rev_involutive. reflexivity.
  - destruct (comp_eqb c dot); [apply IH|].
    destruct (comp_eqb c dotdot); apply IH.
Qed.

Lemma clean_from_nd : forall cs s, is_clean cs = true -> clean_from s cs = rev s ++ cs.
Proof.
  induction cs as [|c cs IH]; intros s H; cbn [clean_from].
  - rewrite app_nil_r. reflexivity.
  - rewrite is_clean_cons in H. apply andb_true_iff in H. destruct H as [H1 H2].
    apply nd_true in H1. destruct H1 as [E1 E2]. rewrite E1, E2.
    rewrite IH by exact H2. cbn [rev]. rewrite <- app_assoc. reflexivity.
Qed.

Lemma clean_app_clean : forall a b, is_clean b = true -> clean (a ++ b) = clean a ++ b.
Proof.
  intros a b H. unfold clean. rewrite clean_from_app, clean_from_nd by exact H.
  rewrite rev_involutive. reflexivity.
Qed.

Lemma is_clean_removelast : forall p, is_clean p = true -> is_clean (removelast p) = true.
Proof.
  intros p. induction p as [|x p _] using rev_ind; intro H; [exact H|].
  rewrite removelast_last. rewrite is_clean_app in H. apply andb_true_iff in H. apply H.
Qed.

(* ========== helpers: prefixb / path_eqb ========== *)
Lemma prefixb_iff : forall a b, prefixb a b = true <-> exists t, b = a ++ t.
Proof.
  induction a as [|x a IH]; intros b; cbn [prefixb].
  - split; [intros _; exists b; reflexivity | reflexivity].
  - destruct b as [|y b].
    + split; [discriminate | intros [t H]; discriminate].
    + rewrite andb_true_iff, comp_eqb_iff, IH. split.
      * intros [E [t Ht]]. subst. exists t. reflexivity.
      * intros [t Ht]. inversion Ht; subst. split; [reflexivity | exists t; reflexivity].
Qed.

Lemma prefixb_app : forall a b, prefixb a (a ++ b) = true.
Proof. intros. apply prefixb_iff. exists b. reflexivity. Qed.

Lemma prefixb_refl : forall a, prefixb a a = true.
Proof. intros. apply prefixb_iff. exists []. rewrite app_nil_r. reflexivity. Qed.

Lemma prefixb_app_r : forall a b c, prefixb a b = true -> prefixb a (b ++ c) = true.
Proof.
  intros a b c H. apply prefixb_iff in H. destruct H as [t Ht]. subst.
  apply prefixb_iff. exists (t ++ c). rewrite app_assoc. reflexivity.
Qed.

Lemma path_eqb_iff : forall a b, path_eqb a b = true <-> a = b.
Proof.
  intros a b. unfold path_eqb. rewrite andb_true_iff, Nat.eqb_eq, prefixb_iff. split.
  - intros [L [t Ht]]. subst. rewrite app_length in L.
    destruct t; [rewrite app_nil_r; reflexivity | cbn [length] in L; lia].
  - intros ->. split; [reflexivity | exists []; rewrite app_nil_r; reflexivity].
Qed.

Lemma path_eqb_refl : forall a, path_eqb a a = true.
Proof. intros. apply path_eqb_iff. reflexivity. Qed.

Lemma inside_removelast : forall root p,
  prefixb root p = true -> path_eqb p root = false -> prefixb root (removelast p) = true.
Proof.
  intros root p H E. apply prefixb_iff in H. destruct H as [t Ht]. subst.
  destruct t as [|x t].
  - rewrite app_nil_r, path_eqb_refl in E. discriminate.
  - rewrite removelast_app by discriminate. apply prefixb_app.
Qed.

Lemma valid_name_nd : forall w, valid_name w = true -> is_clean [w] = true.
Proof.
  intros w H. unfold valid_name in H.
  apply andb_true_iff in H. destruct H as [H _].
  apply andb_true_iff in H. destruct H as [H H2].
  apply andb_true_iff in H. destruct H as [_ H1].
  rewrite is_clean_cons. unfold nd. rewrite H1, H2. reflexivity.
Qed.

(* ========== C18: confinement ========== *)
Theorem clean_is_clean : forall p, is_clean (clean p) = true.
Proof. intros. unfold clean. apply clean_from_is_clean. reflexivity. Qed.

Theorem clean_of_clean : forall p, is_clean p = true -> clean p = p.
Proof. intros p H. unfold clean. rewrite clean_from_nd by exact H. reflexivity. Qed.

(* attach names: for ANY byte string the fid designates something under the root *)
Theorem attach_confined : forall root aname,
  is_clean root = true ->
  inside root (attach_path root aname) = true /\ is_clean (attach_path root aname) = true.
Proof.
  intros root aname H. unfold attach_path, inside.
  rewrite clean_app_clean by apply clean_is_clean.
  rewrite clean_of_clean by exact H. split.
  - apply prefixb_app.
  - rewrite is_clean_app, H. apply clean_is_clean.
Qed.

(* walk elements, including '..' at the root and elements containing '/' *)
Theorem walk_step_confined : forall root path w p',
  is_clean root = true -> inside root (clean path) = true ->
  walk_step root path w = Some p' -> inside root (clean p') = true.
Proof.
  intros root path w p' Hr Hin Hw. unfold walk_step in Hw. unfold inside in *.
  destruct (comp_eqb w dotdot) eqn:E1.
  - destruct (path_eqb (clean path) (clean root)) eqn:E2; inversion Hw; subst; [exact Hin|].
    unfold dir_of. rewrite (clean_of_clean root Hr) in E2.
    rewrite clean_of_clean by (apply is_clean_removelast, clean_is_clean).
    apply inside_removelast; assumption.
  - destruct (comp_eqb w dot) eqn:E2; [inversion Hw; subst; exact Hin|].
    destruct (valid_name w) eqn:V; [|discriminate]. inversion Hw; subst.
    rewrite clean_app_clean by (apply valid_name_nd; exact V).
    apply prefixb_app_r. exact Hin.
Qed.

Theorem dotdot_at_root_stays : forall root,
  is_clean root = true -> walk_step root root dotdot = Some root.
Proof.
  intros root _. unfold walk_step. rewrite comp_eqb_refl, path_eqb_refl. reflexivity.
Qed.

Theorem create_confined : forall root path name p,
  inside root (clean path) = true -> create_path path name = Some p ->
  inside root (clean p) = true /\ clean p = clean path ++ [name].
Proof.
  intros root path name p Hin Hc. unfold create_path in Hc. unfold inside in *.
  destruct (valid_name name) eqn:V; [|discriminate]. inversion Hc; subst.
  rewrite clean_app_clean by (apply valid_name_nd; exact V). split; [|reflexivity].
  apply prefixb_app_r. exact Hin.
Qed.

Theorem rename_confined : forall root path name d,
  rename_dest root path name = Some d -> inside (clean root) d = true /\ is_clean d = true.
Proof.
  intros root path name d H. unfold rename_dest in H.
  match type of H with (if ?c then _ else _) = _ => destruct c eqn:C end; [|discriminate].
  injection H as Hd. rewrite Hd in C.
  apply andb_true_iff in C. destruct C as [C _].
  apply andb_true_iff in C. destruct C as [C _]. split; [exact C|].
  rewrite <- Hd. destruct name as [|c name]; [apply clean_is_clean|].
  destruct (c =? slash); apply clean_is_clean.
Qed.

Lemma clean_from_nodotdot : forall cs s,
  existsb (fun c => comp_eqb c dotdot) cs = false ->
  clean_from s cs = rev s ++ filter (fun c => negb (comp_eqb c dot)) cs.
Proof.
  induction cs as [|c cs IH]; intros s H; cbn [clean_from filter].
  - rewrite app_nil_r. reflexivity.
  - cbn [existsb] in H. apply orb_false_iff in H. destruct H as [H1 H2]. rewrite H1.
    destruct (comp_eqb c dot); cbn [negb].
    + apply IH. exact H2.
    + rewrite IH by exact H2. cbn [rev]. rewrite <- app_assoc. reflexivity.
Qed.

(* an accepted symlink target cannot lead out of the directory that holds the link *)
Theorem symlink_confined : forall linkdir ext,
  symlink_ok ext = true -> inside (clean linkdir) (symlink_resolves linkdir ext) = true.
Proof.
  intros linkdir ext H. unfold symlink_ok in H. apply andb_true_iff in H. destruct H as [_ H].
  apply negb_true_iff in H. unfold symlink_resolves, inside, clean.
  rewrite clean_from_app. rewrite (clean_from_nodotdot (split_slash ext)) by exact H.
  rewrite rev_involutive. apply prefixb_app.
Qed.

(* sessions: whatever the request sequence and whatever exists, every host path
   handed to the operating system and every fid stay under the root *)
Definition fids_confined (root : hpath) (m : fidmap) : Prop :=
  forall k p, fm_get m k = Some p -> inside root (clean p) = true.

Lemma fids_confined_set : forall root m k p,
  fids_confined root m -> inside root (clean p) = true -> fids_confined root (fm_set m k p).
Proof.
  intros root m k p Hm Hp k' p' H. unfold fm_set in H. cbn [fm_get] in H.
  destruct (k =? k'); [inversion H; subst; exact Hp | eapply Hm; exact H].
Qed.

Lemma walk_loop_confined : forall exists_ root names path n q t,
  is_clean root = true -> inside root (clean path) = true ->
  walk_loop exists_ root path names = (n, q, t) ->
  inside root (clean q) = true /\ Forall (fun p => inside root (clean p) = true) t.
Proof.
  intros e root names. induction names as [|w rest IH]; intros path n q t Hr Hp H;
    cbn [walk_loop] in H.
  - inversion H; subst. split; [exact Hp | constructor].
  - destruct (walk_step root path w) as [p|] eqn:W.
    + pose proof (walk_step_confined _ _ _ _ Hr Hp W) as Hc.
      destruct (e p).
      * destruct (walk_loop e root p rest) as [[n' q'] t'] eqn:L.
        inversion H; subst. destruct (IH _ _ _ _ Hr Hc L) as [H1 H2].
        split; [exact H1 | constructor; assumption].
      * inversion H; subst. split; [exact Hp | constructor; [exact Hc | constructor]].
    + inversion H; subst. split; [exact Hp | constructor].
Qed.

Lemma ustep_confined : forall exists_ root m r ok m' t,
  is_clean root = true -> fids_confined root m ->
  ustep exists_ root m r ok = (m', t) ->
  Forall (fun p => inside root (clean p) = true) t /\ fids_confined root m'.
Proof.
  intros e root m r ok m' t Hr Hm H. destruct r as [fid aname|fid nf names|fid name tgt|fid name|fid];
    cbn [ustep] in H.
  - destruct (attach_confined root aname Hr) as [A1 A2].
    assert (Hc : inside root (clean (attach_path root aname)) = true)
      by (rewrite clean_of_clean by exact A2; exact A1).
    inversion H; subst. split; [constructor; [exact Hc | constructor]|].
    destruct ok; [apply fids_confined_set; assumption | exact Hm].
  - destruct (fm_get m fid) as [path|] eqn:G.
    + pose proof (Hm _ _ G) as Hp.
      unfold ufs_walk in H.
      destruct (walk_loop e root path names) as [[n q] tt] eqn:L.
      destruct (walk_loop_confined _ _ _ _ _ _ _ Hr Hp L) as [Hq Ht].
      destruct names as [|w rest].
      * inversion H; subst. split; [constructor; assumption|].
        apply fids_confined_set; assumption.
      * destruct (n =? 0)%nat.
        -- inversion H; subst. split; [constructor; assumption | exact Hm].
        -- destruct (n =? length (w :: rest))%nat; inversion H; subst;
             (split; [constructor; assumption|]);
             [apply fids_confined_set; assumption | exact Hm].
    + inversion H; subst. split; [constructor | exact Hm].
  - destruct (fm_get m fid) as [path|] eqn:G.
    + pose proof (Hm _ _ G) as Hp.
      destruct (create_path path name) as [p|] eqn:C.
      * destruct (create_confined _ _ _ _ Hp C) as [Hc _].
        destruct (match tgt with Some e0 => symlink_ok e0 | None => true end).
        -- inversion H; subst. split; [repeat constructor; assumption|].
           destruct ok; [apply fids_confined_set; assumption | exact Hm].
        -- inversion H; subst. split; [repeat constructor; assumption | exact Hm].
      * inversion H; subst. split; [repeat constructor; assumption | exact Hm].
    + inversion H; subst. split; [constructor | exact Hm].
  - destruct (fm_get m fid) as [path|] eqn:G.
    + pose proof (Hm _ _ G) as Hp.
      destruct (rename_dest root path name) as [d|] eqn:R.
      * destruct (rename_confined _ _ _ _ R) as [R1 R2].
        rewrite (clean_of_clean root Hr) in R1.
        assert (Hc : inside root (clean d) = true)
          by (rewrite clean_of_clean by exact R2; exact R1).
        inversion H; subst. split; [repeat constructor; assumption|].
        destruct ok; [apply fids_confined_set; assumption | exact Hm].
      * inversion H; subst. split; [repeat constructor; assumption | exact Hm].
    + inversion H; subst. split; [constructor | exact Hm].
  - destruct (fm_get m fid) as [path|] eqn:G; inversion H; subst.
    + split; [repeat constructor; eapply Hm; exact G | exact Hm].
    + split; [constructor | exact Hm].
Qed.

Theorem all_touched_paths_confined : forall exists_ root rs m m' touched,
  is_clean root = true -> fids_confined root m ->
  urun exists_ root m rs = (m', touched) ->
  Forall (fun p => inside root (clean p) = true) touched /\ fids_confined root m'.
Proof.
  intros e root rs. induction rs as [|[r ok] rs IH]; intros m m' touched Hr Hm H;
    cbn [urun] in H.
  - inversion H; subst. split; [constructor | exact Hm].
  - destruct (ustep e root m r ok) as [m1 t1] eqn:S1.
    destruct (urun e root m1 rs) as [m2 t2] eqn:S2.
    inversion H; subst.
    destruct (ustep_confined _ _ _ _ _ _ _ Hr Hm S1) as [A1 A2].
    destruct (IH _ _ _ Hr A2 S2) as [B1 B2].
    split; [apply Forall_app; split; assumption | exact B2].
Qed.

(* ========== C16: walking and metadata ========== *)
(* every walked element exists, and the one after the last walked does not *)
Theorem walk_loop_prefix : forall exists_ root names path n q touched,
  walk_loop exists_ root path names = (n, q, touched) ->
  (n <= length names)%nat /\
  Forall (fun p => exists_ p = true) (firstn n touched) /\
  (length touched = n \/ (length touched = S n /\ exists_ (last touched []) = false)).
Proof.
  intros e root names. induction names as [|w rest IH]; intros path n q touched H;
    cbn [walk_loop] in H.
  - inversion H; subst. cbn. split; [lia|]. split; [constructor | left; reflexivity].
  - destruct (walk_step root path w) as [p|] eqn:W.
    + destruct (e p) eqn:E.
      * destruct (walk_loop e root p rest) as [[n' q'] t'] eqn:L.
        inversion H; subst. destruct (IH _ _ _ _ L) as [H1 [H2 H3]].
        cbn [length firstn]. split; [lia|]. split; [constructor; assumption|].
        destruct H3 as [H3 | [H3 H4]]; [left; lia|]. right. split; [lia|].
        destruct t' as [|x t']; [discriminate|]. exact H4.
      * inversion H; subst. cbn. split; [lia|]. split; [constructor|].
        right. split; [reflexivity | exact E].
    + inversion H; subst. cbn. split; [lia|]. split; [constructor | left; reflexivity].
Qed.

(* Rwalk carries one qid per existing leading element; the new fid moves only when
   every element was walked; a missing first element is an error *)
Theorem walk_result_shape : forall exists_ root path names res touched,
  ufs_walk exists_ root path names = (res, touched) ->
  match res with
  | WErr => names <> [] /\ (forall w rest p, names = w :: rest -> walk_step root path w = Some p -> exists_ p = false)
  | WOk n (Some q) => n = length names
  | WOk n None => (0 < n < length names)%nat
  end.
Proof.
  intros e root path names res touched H. unfold ufs_walk in H.
  destruct (walk_loop e root path names) as [[n q] t] eqn:L.
  destruct names as [|w rest].
  - cbn [walk_loop] in L. inversion L; subst. inversion H; subst. reflexivity.
  - destruct (n =? 0)%nat eqn:E0.
    + inversion H; subst. apply Nat.eqb_eq in E0. subst n.
      split; [discriminate|]. intros w' rest' p Hn Hw. inversion Hn; subst.
      cbn [walk_loop] in L. rewrite Hw in L.
      destruct (e p); [|reflexivity].
      destruct (walk_loop e root p rest') as [[n' q'] t']. discriminate.
    + apply Nat.eqb_neq in E0.
      destruct (n =? length (w :: rest))%nat eqn:E1; inversion H; subst.
      * apply Nat.eqb_eq in E1. exact E1.
      * apply Nat.eqb_neq in E1. apply walk_loop_prefix in L. lia.
Qed.

(* ---------- the chunked client walk ---------- *)
Fixpoint walk_full (exists_ : hpath -> bool) (root path : hpath) (names : list bytes) : option hpath :=
  match names with
  | [] => Some path
  | w :: rest =>
    match walk_step root path w with
    | None => None
    | Some p => if exists_ p then walk_full exists_ root p rest else None
    end
  end.

Lemma walk_loop_full : forall exists_ root names path n q t,
  walk_loop exists_ root path names = (n, q, t) ->
  (if (n =? length names)%nat then Some q else None) = walk_full exists_ root path names.
Proof.
  intros e root names. induction names as [|w rest IH]; intros path n q t H;
    cbn [walk_loop] in H; cbn [walk_full].
  - inversion H; subst. reflexivity.
  - destruct (walk_step root path w) as [p|].
    + destruct (e p).
      * destruct (walk_loop e root p rest) as [[n' q'] t'] eqn:L.
        inversion H; subst. cbn [length Nat.eqb]. eapply IH. exact L.
      * inversion H; subst. reflexivity.
    + inversion H; subst. reflexivity.
Qed.

Lemma ufs_walk_full : forall exists_ root path names,
  match fst (ufs_walk exists_ root path names) with
  | WOk n (Some q) => Some q
  | _ => None
  end = walk_full exists_ root path names.
Proof.
  intros e root path names. unfold ufs_walk.
  destruct (walk_loop e root path names) as [[n q] t] eqn:L.
  pose proof (walk_loop_full _ _ _ _ _ _ _ L) as F.
  destruct names as [|w rest].
  - cbn [walk_loop] in L. inversion L; subst. reflexivity.
  - destruct (n =? 0)%nat eqn:E0.
    + apply Nat.eqb_eq in E0. subst n. exact F.
    + cbn [fst]. destruct (n =? length (w :: rest))%nat; exact F.
Qed.

Lemma ufs_walk_len : forall exists_ root path c n q,
  fst (ufs_walk exists_ root path c) = WOk n (Some q) -> n = length c.
Proof.
  intros e root path c n q H. destruct (ufs_walk e root path c) as [res t] eqn:U.
  apply walk_result_shape in U. cbn [fst] in H. subst res. exact U.
Qed.

Lemma fwalk_chunks_step : forall exists_ root path c rest,
  fwalk_chunks exists_ root path (c :: rest) =
  match walk_full exists_ root path c with
  | Some q => fwalk_chunks exists_ root q rest
  | None => None
  end.
Proof.
  intros e root path c rest. cbn [fwalk_chunks]. rewrite <- ufs_walk_full.
  destruct (fst (ufs_walk e root path c)) as [|n [q|]] eqn:U; try reflexivity.
  apply ufs_walk_len in U. subst n. rewrite Nat.eqb_refl. reflexivity.
Qed.

Lemma walk_full_app : forall exists_ root a b path,
  walk_full exists_ root path (a ++ b) =
  match walk_full exists_ root path a with
  | Some q => walk_full exists_ root q b
  | None => None
  end.
Proof.
  intros e root a b. induction a as [|w a IH]; intros path; cbn [walk_full app].
  - reflexivity.
  - destruct (walk_step root path w) as [p|]; [|reflexivity].
    destruct (e p); [apply IH | reflexivity].
Qed.

Lemma chunks16_S : forall f names, names <> [] ->
  chunks16 (S f) names = firstn 16 names :: chunks16 f (skipn 16 names).
Proof. intros f [|x names] H; [contradiction | reflexivity]. Qed.

Lemma fwalk_chunks_full : forall exists_ root fuel names path,
  (length names <= fuel)%nat ->
  fwalk_chunks exists_ root path (chunks16 fuel names) = walk_full exists_ root path names.
Proof.
  intros e root fuel. induction fuel as [|f IH]; intros names path H.
  - destruct names; [reflexivity | cbn [length] in H; lia].
  - destruct names as [|x names]; [reflexivity|].
    rewrite chunks16_S by discriminate. rewrite fwalk_chunks_step.
    transitivity (walk_full e root path (firstn 16 (x :: names) ++ skipn 16 (x :: names)));
      [|rewrite firstn_skipn; reflexivity].
    rewrite walk_full_app.
    destruct (walk_full e root path (firstn 16 (x :: names))) as [q|]; [|reflexivity].
    apply IH. rewrite skipn_length. cbn [length] in *. lia.
Qed.

(* a walk of any depth through the client (16 names per Twalk) resolves like one walk *)
Theorem fwalk_resolves : forall exists_ root rp p,
  fwalk exists_ root rp p =
  match fst (ufs_walk exists_ root rp (split_slash p)) with
  | WOk n (Some q) => Some q
  | _ => None
  end.
Proof.
  intros e root rp p. unfold fwalk. destruct (split_slash p) as [|x names] eqn:Sp.
  - reflexivity.
  - rewrite ufs_walk_full. apply fwalk_chunks_full.
    apply Nat.le_succ_diag_r.
Qed.

(* qid and mode bits mirror the file's metadata *)
Lemma perm_land_511 : forall p, p < 512 -> N.land p 511 = p.
Proof.
  intros p H. change 511 with (N.ones 9). rewrite N.land_ones.
  apply N.mod_small. exact H.
Qed.

Lemma perm_high_bits : forall p n, p < 512 -> N.testbit 511 n = false -> N.testbit p n = false.
Proof.
  intros p n H Hn. rewrite <- (perm_land_511 p H), N.land_spec, Hn. apply andb_false_r.
Qed.

Theorem stat_mirrors_inode : forall f dotu,
  fi_perm f < 512 ->
  N.testbit (dir2qidtype f) 7 = fi_dir f /\
  N.testbit (dir2qidtype f) 1 = fi_symlink f /\
  N.testbit (dir2npmode f dotu) 31 = fi_dir f /\
  N.land (dir2npmode f dotu) 511 = fi_perm f /\
  N.testbit (dir2npmode f true) 25 = fi_symlink f /\
  N.testbit (dir2npmode f false) 25 = false /\
  snd (dir2qid f) = fi_ino f.
Proof.
  intros [d s so pi dv su sg perm sz ms mms ino] dotu H.
  unfold dir2qidtype, dir2npmode, dir2qid.
  cbn [fi_dir fi_symlink fi_socket fi_pipe fi_device fi_setuid fi_setgid fi_perm
       fi_mtime_ms fi_ino snd] in *.
  pose proof (perm_high_bits perm 31 H eq_refl) as P31.
  pose proof (perm_high_bits perm 25 H eq_refl) as P25.
  split; [destruct d, s; reflexivity|].
  split; [destruct d, s; reflexivity|].
  split.
  { rewrite !N.lor_spec, P31. destruct dotu, d, s, so, pi, dv, su, sg; reflexivity. }
  split.
  { rewrite !N.land_lor_distr_l, (perm_land_511 perm H).
    assert (E1 : N.land (bit d c_DMDIR) 511 = 0) by (destruct d; reflexivity).
    rewrite E1, N.lor_0_r.
    match goal with |- N.lor perm ?X = perm => assert (E2 : X = 0) end.
    { destruct dotu, s, so, pi, dv, su, sg; reflexivity. }
    rewrite E2. apply N.lor_0_r. }
  split.
  { rewrite !N.lor_spec, P25. destruct d, s, so, pi, dv, su, sg; reflexivity. }
  split; [|reflexivity].
  rewrite !N.lor_spec, P25. destruct d; reflexivity.
Qed.

(* ========== C17: the system calls behind a mutation ========== *)
Definition acc_eqb (a b : access) : bool :=
  match a, b with
  | RDONLY, RDONLY | WRONLY, WRONLY | RDWR, RDWR => true
  | _, _ => false
  end.
Definition fl_eqb (x y : access * bool) : bool :=
  acc_eqb (fst x) (fst y) && Bool.eqb (snd x) (snd y).

Lemma fl_eqb_eq : forall x y, fl_eqb x y = true -> x = y.
Proof. intros [[] []] [[] []] H; try reflexivity; discriminate. Qed.

Lemma omode_check :
  forallb (fun m => fl_eqb (omode2uflags m) (spec_flags m)) (map N.of_nat (seq 0 256)) = true.
Proof. vm_compute. reflexivity. Qed.

(* all 256 open modes *)
Theorem omode_flags_all : forall m, m < 256 -> omode2uflags m = spec_flags m.
Proof.
  intros m H. apply fl_eqb_eq.
  apply (proj1 (forallb_forall _ _) omode_check m).
  apply in_map_iff. exists (N.to_nat m). split; [apply N2Nat.id|].
  apply in_seq. lia.
Qed.

(* a create issues exactly the one corresponding POSIX operation *)
Theorem create_plan_is_spec : forall dotu dirpath name perm mode ext linksrc ops,
  mode < 256 ->
  (has_bit_n perm c_DMDIR = true -> mode = c_OREAD) ->
  has_bit_n perm c_DMNAMEDPIPE = false ->
  create_plan dotu dirpath name perm mode ext linksrc = CPlan ops ->
  filter mutating ops = match create_spec dotu dirpath name perm mode ext linksrc with Some o => [o] | None => [] end.
Proof.
  intros dotu dirpath name perm mode ext linksrc ops Hm Hd Hp H.
  unfold create_plan in H. unfold create_spec.
  destruct (create_path dirpath name) as [p|]; [|discriminate].
  destruct (has_bit_n perm c_DMDIR) eqn:D.
  { rewrite (Hd eq_refl) in H. inversion H; subst. reflexivity. }
  destruct (has_bit_n perm c_DMSYMLINK).
  { destruct (symlink_ok ext); inversion H; subst; reflexivity. }
  destruct (has_bit_n perm c_DMLINK).
  { destruct linksrc; inversion H; subst; reflexivity. }
  rewrite Hp in *.
  destruct (has_bit_n perm c_DMDEVICE); [discriminate|].
  inversion H; subst.
  rewrite <- (omode_flags_all mode Hm). reflexivity.
Qed.

(* a wstat with every field at its "don't touch" value does nothing *)
Theorem wstat_nothing : forall dotu root path,
  wstat_plan dotu root path (mkWstat ones32 c_NOUID c_NOUID [] ones64 ones32 ones32) = CPlan [].
Proof. intros [] root path; reflexivity. Qed.

Ltac destruct_ifs H :=
  repeat match type of H with context [if ?c then _ else _] => destruct c end.

(* rename targets are confined, and truncate / chtimes act on the renamed path *)
Theorem wstat_rename_confined : forall dotu root path w ops p d,
  wstat_plan dotu root path w = CPlan ops -> In (SRename p d) ops ->
  p = path /\ inside (clean root) d = true.
Proof.
  intros dotu root path w ops p d H Hin. unfold wstat_plan in H. cbv zeta in H.
  destruct (w_name w) as [|c nm] eqn:Nm.
  - inversion H; subst ops; clear H. destruct_ifs Hin; cbn [In app] in Hin;
      repeat (destruct Hin as [Hin|Hin]; [discriminate|]); contradiction.
  - destruct (rename_dest root path (c :: nm)) as [d'|] eqn:R.
    + inversion H; subst ops; clear H. apply rename_confined in R. destruct R as [R _].
      destruct_ifs Hin; cbn [In app] in Hin;
        repeat (destruct Hin as [Hin|Hin]; [try discriminate|]); try contradiction;
        (inversion Hin; subst; split; [reflexivity | exact R]).
    + inversion H; subst ops; clear H. destruct_ifs Hin; cbn [In app] in Hin;
        repeat (destruct Hin as [Hin|Hin]; [discriminate|]); contradiction.
Qed.

Theorem wstat_follows_rename : forall dotu root path w ops d,
  w_name w <> [] -> rename_dest root path (w_name w) = Some d ->
  wstat_plan dotu root path w = CPlan ops ->
  (w_length w <> ones64 -> In (STruncate d (w_length w)) ops) /\
  (forall p len, In (STruncate p len) ops -> p = d).
Proof.
  intros dotu root path w ops d Hn R H. unfold wstat_plan in H. cbv zeta in H.
  destruct (w_name w) as [|c nm] eqn:Nm; [contradiction|].
  rewrite R in H. inversion H; subst ops; clear H. split.
  - intro Hl. destruct (w_length w =? ones64) eqn:E; [apply N.eqb_eq in E; contradiction|].
    do 2 (apply in_or_app; right). cbn [app In]. right. left. reflexivity.
  - intros p len Hin. destruct_ifs Hin; cbn [In app] in Hin;
      repeat (destruct Hin as [Hin|Hin]; [try discriminate|]); try contradiction;
      inversion Hin; subst; reflexivity.
Qed.
