(* Proofs about the directory-window model (Ufs/DirWindow.v). *)
From Coq Require Import ZArith List Bool PeanoNat Lia.
From Coq Require Import ZifyBool.
From V9 Require Import Lib.GoSem Ufs.DirWindow.
Import ListNotations.
Local Open Scope Z_scope.

(* well-formed listing: end offsets of entries with positive sizes *)
Definition wf_ends (ends : list Z) : Prop :=
  exists sizes, ends = ends_of 0 sizes /\ Forall (fun s => 0 < s) sizes.

(* an entry boundary: the start of the listing or the end of an entry *)
Definition boundary (ends : list Z) (b : Z) : Prop := b = 0 \/ In b ends.

(* size of the entry that starts at boundary b (0 if none) *)
Fixpoint next_size (prev : Z) (ends : list Z) (b : Z) : Z :=
  match ends with
  | [] => 0
  | e :: t => if prev =? b then e - prev else next_size e t b
  end.

Definition max_size (ends : list Z) : Z := fold_right Z.max 0 (entry_sizes ends).

(* chunks (offset, n) tile [a, b) and each ends on an entry boundary *)
Inductive covers (ends : list Z) : Z -> Z -> list (Z * Z) -> Prop :=
| cov_nil a : covers ends a a []
| cov_cons a n b rest : 0 < n -> boundary ends (a + n) -> covers ends (a + n) b rest ->
                        covers ends a b ((a, n) :: rest).

(* ---- helper lemmas ---- *)

(* strictly increasing, all above p *)
Fixpoint incr (p : Z) (l : list Z) : Prop :=
  match l with [] => True | e :: t => p < e /\ incr e t end.

Lemma ends_of_incr : forall sizes p,
  Forall (fun s => 0 < s) sizes -> incr p (ends_of p sizes).
Proof.
  induction sizes as [|s t IH]; intros p H; cbn [ends_of incr]; [exact I|].
  inversion H; subst. split; [lia|]. apply IH. assumption.
Qed.

Lemma wf_incr : forall ends, wf_ends ends -> incr 0 ends.
Proof. intros ends (sizes & -> & H). now apply ends_of_incr. Qed.

Lemma search_le_len : forall a x, (search_ints a x <= length a)%nat.
Proof.
  induction a as [|h t IH]; intros x; cbn [search_ints length]; [lia|].
  destruct (h >=? x); [lia|]. specialize (IH x). lia.
Qed.

Lemma search_lt : forall a x i, (i < search_ints a x)%nat -> nth i a 0 < x.
Proof.
  induction a as [|h t IH]; intros x i; cbn [search_ints]; [lia|].
  destruct (h >=? x) eqn:E; [lia|]. intros Hi.
  destruct i as [|i]; cbn [nth]; [lia|]. apply IH. lia.
Qed.

Lemma search_ge : forall a x, (search_ints a x < length a)%nat ->
  x <= nth (search_ints a x) a 0.
Proof.
  induction a as [|h t IH]; intros x; cbn [search_ints length]; [lia|].
  destruct (h >=? x) eqn:E; cbn [nth]; [lia|]. intros H. apply IH. lia.
Qed.

Lemma incr_gt : forall a p i, incr p a -> (i < length a)%nat -> p < nth i a 0.
Proof.
  induction a as [|h t IH]; intros p i; cbn [incr length]; [lia|].
  intros [H1 H2] Hi. destruct i as [|i]; cbn [nth]; [lia|].
  specialize (IH h i H2). lia.
Qed.

Lemma incr_mono : forall a p i j, incr p a -> (i < j)%nat -> (j < length a)%nat ->
  nth i a 0 < nth j a 0.
Proof.
  induction a as [|h t IH]; intros p i j; cbn [incr length]; [lia|].
  intros [H1 H2] Hij Hj. destruct j as [|j]; [lia|].
  destruct i as [|i]; cbn [nth].
  - apply (incr_gt t h j H2). lia.
  - apply (IH h i j H2); lia.
Qed.

Lemma incr_mono_le : forall a p i j, incr p a -> (i <= j)%nat -> (j < length a)%nat ->
  nth i a 0 <= nth j a 0.
Proof.
  intros a p i j H Hij Hj. destruct (Nat.eq_dec i j) as [->|Hne]; [lia|].
  assert (nth i a 0 < nth j a 0) by (apply (incr_mono a p); [assumption|lia|lia]). lia.
Qed.

Lemma last_nth : forall (a : list Z) d, last a d = nth (length a - 1) a d.
Proof.
  induction a as [|h t IH]; intros d; [reflexivity|].
  destruct t as [|x t']; [reflexivity|].
  change (last (h :: x :: t') d) with (last (x :: t') d). rewrite IH.
  cbn [length]. rewrite !Nat.sub_succ, !Nat.sub_0_r. reflexivity.
Qed.

Lemma total_nth : forall a, total_of a = nth (length a - 1) a 0.
Proof. intros. apply last_nth. Qed.

Lemma In_idx : forall (a : list Z) b, In b a -> exists j, (j < length a)%nat /\ nth j a 0 = b.
Proof. intros a b H. apply In_nth. exact H. Qed.

Lemma boundary_nonneg : forall a b, incr 0 a -> boundary a b -> 0 <= b.
Proof.
  intros a b Hi [->|H]; [lia|]. destruct (In_idx _ _ H) as (j & Hj & <-).
  assert (0 < nth j a 0) by (apply incr_gt; assumption). lia.
Qed.

Lemma boundary_le_total : forall a b, incr 0 a -> boundary a b -> b <= total_of a.
Proof.
  intros a b Hi Hb. rewrite total_nth. destruct a as [|h t].
  - destruct Hb as [->|[]]. cbn. lia.
  - destruct Hb as [->|H].
    + assert (0 < nth (length (h :: t) - 1) (h :: t) 0)
        by (apply incr_gt; [assumption|cbn [length]; lia]). lia.
    + destruct (In_idx _ _ H) as (j & Hj & <-).
      apply (incr_mono_le _ 0); [assumption|lia|cbn [length] in *; lia].
Qed.

Lemma total_boundary : forall a, boundary a (total_of a).
Proof.
  intros a. rewrite total_nth. destruct a as [|h t]; [left; reflexivity|].
  right. apply nth_In. cbn [length]. lia.
Qed.

(* the pieces of dir_window *)
Definition bad_of (ends : list Z) (off : Z) : bool :=
  if off =? 0 then false
  else let i := search_ints ends off in
       (length ends <=? i)%nat || negb (nthZ ends i =? off).

Definition c1_of (ends : list Z) (off c0 : Z) : Z :=
  let ne := search_ints ends (off + c0) in
  if (ne <? length ends)%nat then
    if nthZ ends ne >? off + c0 then
      if (0 <? ne)%nat then nthZ ends (ne - 1) - off else 0
    else c0
  else c0.

Lemma dir_window_eq : forall ends off cnt,
  dir_window ends off cnt =
  let total := total_of ends in
  if off >? total then DOk 0
  else if bad_of ends off then DBadOffset
  else
    let c0 := if total - off >? cnt then cnt else total - off in
    let c1 := c1_of ends off c0 in
    if (c1 =? 0) && (off <? total) && (0 <? total) then DTooSmall
    else if (c1 <? 0) || (total <? off + c1) then DPanic
    else DOk c1.
Proof. reflexivity. Qed.

Lemma bad_false_boundary : forall ends off, bad_of ends off = false -> boundary ends off.
Proof.
  intros ends off. unfold bad_of, nthZ.
  destruct (Z.eqb_spec off 0) as [->|Hne]; [intros _; left; reflexivity|].
  cbv zeta. intros H. apply orb_false_elim in H. destruct H as [H1 H2].
  right. apply negb_false_iff in H2. apply Z.eqb_eq in H2. rewrite <- H2.
  apply nth_In. apply Nat.leb_gt in H1. exact H1.
Qed.

Lemma boundary_bad_false : forall ends off, incr 0 ends -> boundary ends off ->
  bad_of ends off = false.
Proof.
  intros ends off Hi Hb. unfold bad_of, nthZ.
  destruct (Z.eqb_spec off 0) as [->|Hne]; [reflexivity|].
  destruct Hb as [->|Hin]; [lia|]. cbv zeta.
  destruct (In_idx _ _ Hin) as (j & Hj & Hjv).
  set (i := search_ints ends off).
  assert (Hlt := search_lt ends off j). fold i in Hlt.
  assert (Hge := search_ge ends off). fold i in Hge.
  assert (Hij : (i <= j)%nat) by lia.
  assert (Hil : (i < length ends)%nat) by lia.
  assert (i = j).
  { destruct (Nat.eq_dec i j) as [|Hd]; [assumption|].
    assert (nth i ends 0 < nth j ends 0) by (apply (incr_mono ends 0); [assumption|lia|lia]).
    lia. }
  subst j. rewrite Hjv, Z.eqb_refl. cbn [negb].
  rewrite orb_false_r. apply Nat.leb_gt. exact Hil.
Qed.

Lemma c1_spec : forall ends off c0,
  incr 0 ends -> boundary ends off -> 0 <= c0 <= total_of ends - off ->
  0 <= c1_of ends off c0 <= c0 /\
  boundary ends (off + c1_of ends off c0) /\
  (forall b, boundary ends b -> b <= off + c0 -> b <= off + c1_of ends off c0).
Proof.
  intros ends off c0 Hi Hb Hc0.
  assert (Hoff := boundary_nonneg _ _ Hi Hb).
  unfold c1_of, nthZ. cbv zeta.
  set (ne := search_ints ends (off + c0)).
  assert (Hlt := search_lt ends (off + c0)). fold ne in Hlt.
  assert (Hge := search_ge ends (off + c0)). fold ne in Hge.
  assert (Hmono := incr_mono ends 0).
  assert (Hgt := incr_gt ends 0).
  destruct (Nat.ltb_spec ne (length ends)) as [Hne|Hne].
  - destruct (Z.gtb_spec (nth ne ends 0) (off + c0)) as [Hg|Hg].
    + destruct (Nat.ltb_spec 0 ne) as [Hpos|Hpos].
      * (* c1 = ends[ne-1] - off *)
        assert (Hprev : nth (ne - 1) ends 0 < off + c0) by (apply Hlt; lia).
        assert (Hmax : forall b, boundary ends b -> b <= off + c0 -> b <= nth (ne - 1) ends 0).
        { intros b [->|Hin] Hle.
          - assert (0 < nth (ne - 1) ends 0) by (apply Hgt; [assumption|lia]). lia.
          - destruct (In_idx _ _ Hin) as (j & Hj & <-).
            assert (Hjn : (j < ne)%nat).
            { destruct (Nat.lt_ge_cases j ne) as [|Hc]; [assumption|].
              assert (nth ne ends 0 <= nth j ends 0)
                by (apply (incr_mono_le ends 0); assumption). lia. }
            apply (incr_mono_le ends 0); [assumption|lia|lia]. }
        assert (Hoffle : off <= nth (ne - 1) ends 0) by (apply Hmax; [assumption|lia]).
        split; [lia|]. split.
        -- replace (off + (nth (ne - 1) ends 0 - off)) with (nth (ne - 1) ends 0) by lia.
           right. apply nth_In. lia.
        -- intros b Hbb Hle. specialize (Hmax b Hbb Hle). lia.
      * (* ne = 0, c1 = 0 *)
        assert (ne = 0%nat) by lia.
        split; [lia|]. split.
        -- replace (off + 0) with off by lia. exact Hb.
        -- intros b [->|Hin] Hle; [lia|].
           destruct (In_idx _ _ Hin) as (j & Hj & <-).
           assert (nth ne ends 0 <= nth j ends 0)
             by (apply (incr_mono_le ends 0); [assumption|lia|lia]). lia.
    + (* ends[ne] = off + c0 *)
      specialize (Hge Hne).
      split; [lia|]. split.
      * replace (off + c0) with (nth ne ends 0) by lia. right. apply nth_In. exact Hne.
      * intros b _ Hle. exact Hle.
  - (* ne >= length: only possible when off + c0 = total *)
    split; [lia|]. split.
    + destruct ends as [|h t].
      * unfold total_of in Hc0. cbn [last] in Hc0.
        destruct Hb as [->|[]]. left. lia.
      * rewrite total_nth in Hc0.
        assert (nth (length (h :: t) - 1) (h :: t) 0 < off + c0)
          by (apply Hlt; cbn [length] in *; lia). lia.
    + intros b _ Hle. exact Hle.
Qed.

(* dir_window on a boundary inside the listing *)
Lemma dir_window_spec : forall ends off cnt,
  incr 0 ends -> boundary ends off -> 0 <= cnt ->
  let c1 := c1_of ends off (Z.min cnt (total_of ends - off)) in
  dir_window ends off cnt =
  if (c1 =? 0) && (off <? total_of ends) then DTooSmall else DOk c1.
Proof.
  intros ends off cnt Hi Hb Hcnt. cbv zeta. rewrite dir_window_eq. cbv zeta.
  assert (Hoff := boundary_nonneg _ _ Hi Hb).
  assert (Htot := boundary_le_total _ _ Hi Hb).
  destruct (Z.gtb_spec off (total_of ends)) as [H|_]; [lia|].
  rewrite (boundary_bad_false _ _ Hi Hb).
  assert (Hc0 : (if total_of ends - off >? cnt then cnt else total_of ends - off)
                = Z.min cnt (total_of ends - off))
    by (destruct (Z.gtb_spec (total_of ends - off) cnt); lia).
  rewrite Hc0.
  set (c0 := Z.min cnt (total_of ends - off)).
  destruct (c1_spec ends off c0 Hi Hb ltac:(lia)) as (Hr & _ & _).
  set (c1 := c1_of ends off c0) in *.
  destruct (Z.eqb_spec c1 0) as [E|E];
    destruct (Z.ltb_spec off (total_of ends)) as [F|F]; cbn [andb].
  - destruct (Z.ltb_spec 0 (total_of ends)); [reflexivity|lia].
  - destruct (Z.ltb_spec c1 0); [lia|].
    destruct (Z.ltb_spec (total_of ends) (off + c1)); [lia|]. reflexivity.
  - destruct (Z.ltb_spec c1 0); [lia|].
    destruct (Z.ltb_spec (total_of ends) (off + c1)); [lia|]. reflexivity.
  - destruct (Z.ltb_spec c1 0); [lia|].
    destruct (Z.ltb_spec (total_of ends) (off + c1)); [lia|]. reflexivity.
Qed.

Lemma dir_window_past : forall ends off cnt,
  total_of ends < off -> dir_window ends off cnt = DOk 0.
Proof.
  intros. rewrite dir_window_eq. cbv zeta.
  destruct (Z.gtb_spec off (total_of ends)); [reflexivity|lia].
Qed.

Lemma dir_window_bad : forall ends off cnt,
  off <= total_of ends -> bad_of ends off = true -> dir_window ends off cnt = DBadOffset.
Proof.
  intros ends off cnt H Hbad. rewrite dir_window_eq. cbv zeta.
  destruct (Z.gtb_spec off (total_of ends)); [lia|]. rewrite Hbad. reflexivity.
Qed.

(* next_size *)
Lemma last_cons_default : forall (t : list Z) e d, last (e :: t) d = last t e.
Proof.
  induction t as [|x t IH]; intros e d; [reflexivity|].
  change (last (e :: x :: t) d) with (last (x :: t) d). rewrite !IH. reflexivity.
Qed.

Lemma incr_In_gt : forall a p b, incr p a -> In b a -> p < b.
Proof.
  intros a p b Hi Hin. destruct (In_idx _ _ Hin) as (j & Hj & <-). now apply incr_gt.
Qed.

Lemma next_size_spec : forall a p b,
  incr p a -> (b = p \/ In b a) -> b < last a p ->
  0 < next_size p a b /\ In (b + next_size p a b) a /\
  (forall b', In b' a -> b < b' -> b + next_size p a b <= b').
Proof.
  induction a as [|e t IH]; intros p b Hi Hb Hlast.
  - cbn [last] in Hlast. destruct Hb as [->|[]]. lia.
  - destruct Hi as [Hpe Hi]. cbn [next_size].
    destruct (Z.eqb_spec p b) as [<-|Hne].
    + split; [lia|]. split.
      * left. lia.
      * intros b' [<-|Hin] Hlt; [lia|].
        assert (e < b') by (apply (incr_In_gt t); assumption). lia.
    + rewrite last_cons_default in Hlast.
      assert (Hb' : b = e \/ In b t) by (destruct Hb as [|[|]]; [lia|auto|auto]).
      destruct (IH e b Hi Hb' Hlast) as (H1 & H2 & H3).
      split; [exact H1|]. split; [right; exact H2|].
      intros b' [<-|Hin] Hlt.
      * destruct Hb' as [->|Hbt]; [lia|].
        assert (e < b) by (apply (incr_In_gt t); assumption). lia.
      * apply H3; assumption.
Qed.

Lemma next_size_le_max : forall a p b,
  next_size p a b <= fold_right Z.max 0 (sizes_from p a).
Proof.
  induction a as [|e t IH]; intros p b; cbn [next_size sizes_from fold_right]; [lia|].
  destruct (p =? b); [lia|]. specialize (IH e b). lia.
Qed.

Lemma fold_max_nonneg : forall a p, 0 <= fold_right Z.max 0 (sizes_from p a).
Proof.
  induction a as [|e t IH]; intros p; cbn [sizes_from fold_right]; [lia|].
  specialize (IH e). lia.
Qed.

Lemma max_size_nonneg : forall a, 0 <= max_size a.
Proof. intros a. apply fold_max_nonneg. Qed.

(* no offset/count a client can send makes the slice ill-formed *)
Theorem dir_window_no_panic : forall ends off cnt,
  wf_ends ends -> 0 <= off -> 0 <= cnt -> dir_window ends off cnt <> DPanic.
Proof.
  intros ends off cnt Hwf Hoff Hcnt. assert (Hi := wf_incr _ Hwf).
  destruct (Z.lt_ge_cases (total_of ends) off) as [Hp|Hp].
  { rewrite dir_window_past by assumption. discriminate. }
  destruct (bad_of ends off) eqn:B.
  { rewrite dir_window_bad by assumption. discriminate. }
  apply bad_false_boundary in B.
  rewrite dir_window_spec by assumption. cbv zeta.
  destruct (_ && _); discriminate.
Qed.

(* a successful reply consists of whole consecutive entries, at most count bytes,
   and is non-empty while entries remain *)
Theorem dir_reply_whole : forall ends off cnt n,
  wf_ends ends -> 0 <= off -> 0 <= cnt -> dir_window ends off cnt = DOk n ->
  0 <= n /\ n <= cnt /\
  (off <= total_of ends -> boundary ends off /\ boundary ends (off + n)) /\
  (off < total_of ends -> 0 < n) /\
  (total_of ends <= off -> n = 0).
Proof.
  intros ends off cnt n Hwf Hoff Hcnt. assert (Hi := wf_incr _ Hwf).
  destruct (Z.lt_ge_cases (total_of ends) off) as [Hp|Hp].
  { rewrite dir_window_past by assumption. intros [= <-]. repeat split; lia. }
  destruct (bad_of ends off) eqn:B.
  { rewrite dir_window_bad by assumption. discriminate. }
  apply bad_false_boundary in B.
  rewrite dir_window_spec by assumption. cbv zeta.
  set (c0 := Z.min cnt (total_of ends - off)).
  destruct (c1_spec ends off c0 Hi B ltac:(lia)) as (Hr & Hb1 & _).
  set (c1 := c1_of ends off c0) in *.
  destruct (Z.eqb_spec c1 0) as [E|E];
    destruct (Z.ltb_spec off (total_of ends)) as [F|F]; cbn [andb];
    try discriminate; intros [= <-]; repeat split; solve [lia | assumption].
Qed.

(* an offset that is not an entry boundary is refused *)
Theorem dir_bad_offset : forall ends off cnt,
  wf_ends ends -> 0 < off -> off <= total_of ends -> ~ boundary ends off -> 0 <= cnt ->
  dir_window ends off cnt = DBadOffset.
Proof.
  intros ends off cnt Hwf Hoff Htot Hnb Hcnt.
  apply dir_window_bad; [assumption|].
  destruct (bad_of ends off) eqn:B; [reflexivity|].
  exfalso. apply Hnb. now apply bad_false_boundary.
Qed.

Lemma next_size_facts : forall ends off,
  incr 0 ends -> boundary ends off -> off < total_of ends ->
  0 < next_size 0 ends off /\ boundary ends (off + next_size 0 ends off) /\
  (forall b', boundary ends b' -> off < b' -> off + next_size 0 ends off <= b').
Proof.
  intros ends off Hi Hb Htot. assert (Hoff := boundary_nonneg _ _ Hi Hb).
  destruct (next_size_spec ends 0 off Hi Hb Htot) as (H1 & H2 & H3).
  split; [exact H1|]. split; [right; exact H2|].
  intros b' [->|Hin] Hlt; [lia|]. apply H3; assumption.
Qed.

(* a count too small for the next entry yields an error, never a truncated or empty reply *)
Theorem dir_small_count_errors : forall ends off cnt,
  wf_ends ends -> boundary ends off -> off < total_of ends -> 0 <= cnt ->
  cnt < next_size 0 ends off ->
  dir_window ends off cnt = DTooSmall.
Proof.
  intros ends off cnt Hwf Hb Htot Hcnt Hsmall. assert (Hi := wf_incr _ Hwf).
  rewrite dir_window_spec by assumption. cbv zeta.
  assert (Hoff := boundary_nonneg _ _ Hi Hb).
  set (c0 := Z.min cnt (total_of ends - off)).
  destruct (c1_spec ends off c0 Hi Hb ltac:(lia)) as (Hr & Hb1 & _).
  destruct (next_size_facts ends off Hi Hb Htot) as (Hs & _ & Hgap).
  set (c1 := c1_of ends off c0) in *.
  assert (c1 = 0).
  { destruct (Z.eq_dec c1 0) as [|Hne]; [assumption|].
    specialize (Hgap (off + c1) Hb1 ltac:(lia)). lia. }
  destruct (Z.eqb_spec c1 0); [|lia].
  destruct (Z.ltb_spec off (total_of ends)); [reflexivity|lia].
Qed.

(* a count large enough for the next entry returns at least that entry *)
Theorem dir_enough_count_progress : forall ends off cnt,
  wf_ends ends -> boundary ends off -> off < total_of ends ->
  next_size 0 ends off <= cnt ->
  exists n, dir_window ends off cnt = DOk n /\ next_size 0 ends off <= n.
Proof.
  intros ends off cnt Hwf Hb Htot Hcnt. assert (Hi := wf_incr _ Hwf).
  assert (Hoff := boundary_nonneg _ _ Hi Hb).
  destruct (next_size_facts ends off Hi Hb Htot) as (Hs & Hnb & _).
  assert (Hnt := boundary_le_total _ _ Hi Hnb).
  rewrite dir_window_spec by (assumption || lia). cbv zeta.
  set (c0 := Z.min cnt (total_of ends - off)).
  destruct (c1_spec ends off c0 Hi Hb ltac:(lia)) as (Hr & _ & Hmax).
  specialize (Hmax _ Hnb ltac:(lia)).
  set (c1 := c1_of ends off c0) in *.
  exists c1. destruct (Z.eqb_spec c1 0); [lia|]. cbn [andb]. split; [reflexivity|lia].
Qed.

(* number of entry ends beyond an offset: the measure for the listing loop *)
Definition count_gt (off : Z) (a : list Z) : nat :=
  length (filter (fun e => off <? e) a).

Lemma count_gt_le_length : forall a off, (count_gt off a <= length a)%nat.
Proof.
  induction a as [|e t IH]; intros off; unfold count_gt in *; cbn [filter length]; [lia|].
  specialize (IH off). destruct (off <? e); cbn [length]; lia.
Qed.

Lemma count_gt_mono : forall a x y, x <= y -> (count_gt y a <= count_gt x a)%nat.
Proof.
  induction a as [|e t IH]; intros x y Hxy; unfold count_gt in *; cbn [filter length]; [lia|].
  specialize (IH x y Hxy).
  destruct (Z.ltb_spec x e); destruct (Z.ltb_spec y e); cbn [length]; lia.
Qed.

Lemma count_gt_decr : forall a x y e, In e a -> x < e -> e <= y ->
  (count_gt y a < count_gt x a)%nat.
Proof.
  induction a as [|h t IH]; intros x y e Hin Hxe Hey; [destruct Hin|].
  assert (Hm := count_gt_mono t x y ltac:(lia)).
  unfold count_gt in *. cbn [filter length].
  destruct Hin as [->|Hin].
  - destruct (Z.ltb_spec x e); [|lia]. destruct (Z.ltb_spec y e); [lia|].
    cbn [length]. lia.
  - specialize (IH x y e Hin Hxe Hey).
    destruct (Z.ltb_spec x h); destruct (Z.ltb_spec y h); cbn [length]; lia.
Qed.

Lemma dir_window_at_total : forall ends c,
  incr 0 ends -> 0 <= c -> dir_window ends (total_of ends) c = DOk 0.
Proof.
  intros ends c Hi Hc. assert (Hb := total_boundary ends).
  rewrite dir_window_spec by assumption. cbv zeta.
  rewrite Z.sub_diag.
  destruct (c1_spec ends (total_of ends) (Z.min c 0) Hi Hb ltac:(lia)) as (Hr & _ & _).
  set (c1 := c1_of ends (total_of ends) (Z.min c 0)) in *.
  assert (c1 = 0) by lia.
  destruct (Z.ltb_spec (total_of ends) (total_of ends)); [lia|].
  rewrite andb_false_r. congruence.
Qed.

Lemma listing_gen : forall ends, wf_ends ends ->
  forall counts off, boundary ends off ->
  Forall (fun c => max_size ends <= c) counts ->
  (count_gt off ends < length counts)%nat ->
  exists chunks, listing ends off counts = (chunks, DOk 0) /\
                 covers ends off (total_of ends) chunks.
Proof.
  intros ends Hwf. assert (Hi := wf_incr _ Hwf).
  induction counts as [|c rest IH]; intros off Hb Hall Hlen; [cbn [length] in Hlen; lia|].
  inversion Hall as [|? ? Hc Hrest]; subst.
  assert (Hc0 := max_size_nonneg ends).
  assert (Hoff := boundary_nonneg _ _ Hi Hb).
  assert (Htot := boundary_le_total _ _ Hi Hb).
  cbn [listing].
  destruct (Z.eq_dec off (total_of ends)) as [->|Hne].
  - rewrite dir_window_at_total by (assumption || lia).
    exists []. split; [reflexivity|constructor].
  - assert (Hlt : off < total_of ends) by lia.
    assert (Hsz : next_size 0 ends off <= c).
    { assert (H := next_size_le_max ends 0 off). unfold max_size, entry_sizes in Hc. lia. }
    destruct (dir_enough_count_progress ends off c Hwf Hb Hlt Hsz) as (n & Hn & Hns).
    destruct (next_size_facts ends off Hi Hb Hlt) as (Hs & _ & _).
    destruct (dir_reply_whole ends off c n Hwf Hoff ltac:(lia) Hn) as (_ & _ & Hbb & _ & _).
    destruct (Hbb ltac:(lia)) as [_ Hbn].
    assert (Hin : In (off + n) ends) by (destruct Hbn as [|]; [lia|assumption]).
    assert (Hdec := count_gt_decr ends off (off + n) (off + n) Hin ltac:(lia) ltac:(lia)).
    destruct (IH (off + n) Hbn Hrest ltac:(cbn [length] in Hlen; lia)) as (chunks & Hl & Hcov).
    rewrite Hn. destruct n as [|n|n]; [lia| |lia].
    rewrite Hl. eexists. split; [reflexivity|].
    constructor; [lia|assumption|assumption].
Qed.

(* following the offset rule with every count >= the largest entry returns the
   whole snapshot: the chunks tile [0, total) on entry boundaries (every entry
   exactly once, in order) and the listing ends with an empty reply *)
Theorem dir_listing_complete : forall ends counts,
  wf_ends ends -> Forall (fun c => max_size ends <= c) counts ->
  (length ends < length counts)%nat ->
  exists chunks, listing ends 0 counts = (chunks, DOk 0) /\ covers ends 0 (total_of ends) chunks.
Proof.
  intros ends counts Hwf Hall Hlen.
  apply listing_gen; [assumption|left; reflexivity|assumption|].
  assert (H := count_gt_le_length ends 0). lia.
Qed.

(* the client's Readdir(0) loop with iounit >= the largest entry gets everything *)
Theorem readdir_all : forall ends iounit,
  wf_ends ends -> max_size ends <= iounit ->
  exists chunks, readdir_chunks ends iounit = (chunks, DOk 0) /\ covers ends 0 (total_of ends) chunks.
Proof.
  intros ends iounit Hwf Hio. unfold readdir_chunks.
  apply dir_listing_complete; [assumption| |].
  - apply Forall_forall. intros x Hx. apply repeat_spec in Hx. subst. assumption.
  - rewrite repeat_length. lia.
Qed.
