(* Model of the directory branch of Ufs.Read (ufs.go): which bytes of the
   serialized listing a Tread(offset, count) returns.  Pure arithmetic over Z, as
   Go's int: negative counts and ill-formed slices are explicit [Panic]s.
   [ends] = fid.direntends (cumulative end offsets of the packed entries),
   total = len(fid.dirents).  Model definitions only. *)
From Coq Require Import ZArith List Bool PeanoNat.
From V9 Require Import Lib.GoSem.
Import ListNotations.
Local Open Scope Z_scope.

Inductive dres := DOk (n : Z) | DBadOffset | DTooSmall | DPanic.

(* sort.SearchInts(a, x): smallest index i with a[i] >= x, len(a) if none *)
Fixpoint search_ints (a : list Z) (x : Z) : nat :=
  match a with
  | [] => O
  | h :: t => if h >=? x then O else S (search_ints t x)
  end.

Definition nthZ (a : list Z) (i : nat) : Z := nth i a 0.

Definition total_of (ends : list Z) : Z := last ends 0.

Definition dir_window (ends : list Z) (offset count : Z) : dres :=
  let total := total_of ends in
  if offset >? total then DOk 0                       (* past the end: empty Rread *)
  else
    let bad :=
      if offset =? 0 then false
      else let i := search_ints ends offset in
           (length ends <=? i)%nat || negb (nthZ ends i =? offset) in
    if bad then DBadOffset
    else
      (* switch: len(dirents[offset:]) > count ? count : len(dirents[offset:]) *)
      let c0 := if total - offset >? count then count else total - offset in
      let ne := search_ints ends (offset + c0) in
      let c1 :=
        if (ne <? length ends)%nat then
          if nthZ ends ne >? offset + c0 then
            if (0 <? ne)%nat then nthZ ends (ne - 1) - offset else 0
          else c0
        else c0 in
      if (c1 =? 0) && (offset <? total) && (0 <? total) then DTooSmall
      else if (c1 <? 0) || (total <? offset + c1) then DPanic   (* dirents[offset:offset+count] *)
      else DOk c1.

(* sizes of the entries, from their end offsets *)
Fixpoint sizes_from (prev : Z) (ends : list Z) : list Z :=
  match ends with [] => [] | e :: t => (e - prev) :: sizes_from e t end.
Definition entry_sizes (ends : list Z) : list Z := sizes_from 0 ends.

Fixpoint ends_of (prev : Z) (sizes : list Z) : list Z :=
  match sizes with [] => [] | s :: t => (prev + s) :: ends_of (prev + s) t end.

(* a client following the offset rule: 0, then previous offset + bytes returned,
   until an empty reply; [counts] are the counts it asks for, one per read *)
Fixpoint listing (ends : list Z) (offset : Z) (counts : list Z) : list (Z * Z) * dres :=
  match counts with
  | [] => ([], DOk 0)
  | c :: rest =>
    match dir_window ends offset c with
    | DOk 0 => ([], DOk 0)
    | DOk n => let '(l, r) := listing ends (offset + n) rest in ((offset, n) :: l, r)
    | e => ([], e)
    end
  end.

(* File.Readdir(0) on the client: Read with count = iounit until an empty reply *)
Definition readdir_chunks (ends : list Z) (iounit : Z) : list (Z * Z) * dres :=
  listing ends 0 (repeat iounit (S (length ends))).
