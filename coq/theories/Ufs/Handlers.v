(* Decision logic of the Ufs handlers that is independent of the operating system
   (ufs.go): the qid / mode / stat mapping of a file's metadata (dir2Qid,
   dir2QidType, dir2Npmode, dir2Dir), omode2uflags, and the sequence of system
   calls Create and Wstat issue for a request (with the "don't touch" sentinels),
   toError.  The operating system is an oracle: which calls succeed.
   Model definitions only. *)
From Coq Require Import NArith List Bool PeanoNat.
From V9 Require Import Lib.GoSem Lib.Bytes Gen.Consts Ufs.Path.
Import ListNotations.
Local Open Scope N_scope.

(* what os.Lstat reports about an object *)
Record finfo := mkFinfo {
  fi_dir : bool; fi_symlink : bool; fi_socket : bool; fi_pipe : bool; fi_device : bool;
  fi_setuid : bool; fi_setgid : bool;
  fi_perm : N;          (* d.Mode() & 0777 *)
  fi_size : N;
  fi_mtime_s : N;       (* d.ModTime().Unix() *)
  fi_mtime_ms : N;      (* d.ModTime().UnixNano() / 1000000 *)
  fi_ino : N }.

Definition bit (b : bool) (v : N) : N := if b then v else 0.

(* func dir2QidType(d os.FileInfo) uint8 *)
Definition dir2qidtype (f : finfo) : N := N.lor (bit (fi_dir f) c_QTDIR) (bit (fi_symlink f) c_QTSYMLINK).

(* func dir2Qid: Path = ino, Version = uint32(mtime in ms), Type *)
Definition dir2qid (f : finfo) : N * N * N := (dir2qidtype f, fi_mtime_ms f mod two32, fi_ino f).

(* func dir2Npmode(d os.FileInfo, dotu bool) uint32 *)
Definition dir2npmode (f : finfo) (dotu : bool) : N :=
  N.lor (N.lor (fi_perm f) (bit (fi_dir f) c_DMDIR))
        (if dotu then
           N.lor (bit (fi_symlink f) c_DMSYMLINK)
          (N.lor (bit (fi_socket f) c_DMSOCKET)
          (N.lor (bit (fi_pipe f) c_DMNAMEDPIPE)
          (N.lor (bit (fi_device f) c_DMDEVICE)
          (N.lor (bit (fi_setuid f) c_DMSETUID) (bit (fi_setgid f) c_DMSETGID)))))
         else 0).

(* dir2Dir: Mtime, Length, Name = path[strings.LastIndex(path, "/")+1:] *)
Definition stat_mtime (f : finfo) : N := fi_mtime_s f mod two32.
Definition stat_length (f : finfo) : N := fi_size f.
Definition stat_name (p : hpath) : bytes := last p [].

(* ---------- omode2uflags ---------- *)
Inductive access := RDONLY | WRONLY | RDWR.
Definition omode2uflags (mode : N) : access * bool (* O_TRUNC *) :=
  let acc := match N.land mode 3 with
             | 0 => RDONLY      (* OREAD *)
             | 1 => WRONLY      (* OWRITE *)
             | 2 => RDWR        (* ORDWR *)
             | _ => RDONLY      (* OEXEC *)
             end in
  (acc, negb (N.land mode c_OTRUNC =? 0)).

(* the statement's table *)
Definition spec_flags (mode : N) : access * bool :=
  let m3 := mode mod 4 in
  ((if m3 =? c_OWRITE then WRONLY else if m3 =? c_ORDWR then RDWR else RDONLY),
   N.testbit mode 4).

(* ---------- system calls ---------- *)
Inductive sysop :=
| SMkdir (p : hpath) (perm : N)
| SSymlink (target : bytes) (p : hpath)
| SLink (src p : hpath)
| SOpenCreate (p : hpath) (acc : access) (trunc : bool) (perm : N)   (* os.OpenFile(path, flags|O_CREATE, perm) *)
| SOpen (p : hpath) (acc : access) (trunc : bool)                    (* os.OpenFile(path, flags, 0) *)
| SRemove (p : hpath)
| SChmod (p : hpath) (mode : N)
| SChown (p : hpath) (uid gid : N)
| SRename (p d : hpath)
| STruncate (p : hpath) (length : N)
| SChtimes (p : hpath) (atime mtime : option N)   (* None: keep the current value *)
| SStat (p : hpath).

(* calls that can change the tree *)
Definition mutating (o : sysop) : bool :=
  match o with
  | SOpen _ _ trunc => trunc
  | SStat _ => false
  | _ => true
  end.

Inductive cres := CRefuse | CPlan (ops : list sysop).

Definition has_bit_n (v b : N) : bool := negb (N.land v b =? 0).

(* Ufs.Create: the switch on tc.Perm, the permission masking, the second OpenFile *)
Definition create_plan (dotu : bool) (dirpath : hpath) (name : bytes) (perm mode : N) (ext : bytes)
           (linksrc : option hpath) : cres :=
  match create_path dirpath name with
  | None => CRefuse                                   (* illegal file name *)
  | Some p =>
    let fl := omode2uflags mode in
    if has_bit_n perm c_DMDIR then CPlan [SMkdir p (N.land perm 511); SOpen p (fst fl) (snd fl)]
    else if has_bit_n perm c_DMSYMLINK then
      if symlink_ok ext then CPlan [SSymlink ext p] else CRefuse
    else if has_bit_n perm c_DMLINK then
      match linksrc with
      | Some src => CPlan [SLink src p; SOpen p (fst fl) false]
      | None => CRefuse                               (* ext is not the number of a valid fid *)
      end
    else if has_bit_n perm c_DMNAMEDPIPE then CPlan [SOpen p (fst fl) (snd fl)]   (* nothing is created: the open fails *)
    else if has_bit_n perm c_DMDEVICE then CRefuse                                 (* "not implemented" *)
    else
      let m := N.lor (N.land perm 511)
                     (if dotu then N.lor (bit (has_bit_n perm c_DMSETUID) 2048) (bit (has_bit_n perm c_DMSETGID) 1024) else 0) in
      CPlan [SOpenCreate p (fst fl) (snd fl) m]
  end.

(* the one POSIX operation the statement associates with a Tcreate *)
Definition create_spec (dotu : bool) (dirpath : hpath) (name : bytes) (perm mode : N) (ext : bytes)
           (linksrc : option hpath) : option sysop :=
  match create_path dirpath name with
  | None => None
  | Some p =>
    if has_bit_n perm c_DMDIR then Some (SMkdir p (N.land perm 511))
    else if has_bit_n perm c_DMSYMLINK then (if symlink_ok ext then Some (SSymlink ext p) else None)
    else if has_bit_n perm c_DMLINK then match linksrc with Some src => Some (SLink src p) | None => None end
    else if has_bit_n perm c_DMNAMEDPIPE then None
    else if has_bit_n perm c_DMDEVICE then None
    else Some (SOpenCreate p (fst (spec_flags mode)) (snd (spec_flags mode))
                           (N.lor (N.land perm 511)
                                  (if dotu then N.lor (bit (has_bit_n perm c_DMSETUID) 2048) (bit (has_bit_n perm c_DMSETGID) 1024) else 0)))
  end.

(* ---------- Ufs.Wstat ---------- *)
Record wstat_req := mkWstat {
  w_mode : N;        (* 0xFFFFFFFF: don't touch *)
  w_uidnum : N; w_gidnum : N;      (* 9P2000.u; NOUID: don't touch *)
  w_name : bytes;    (* "": don't rename *)
  w_length : N;      (* 2^64-1: don't touch *)
  w_mtime : N; w_atime : N }.      (* 2^32-1: don't touch *)

Definition ones32 : N := 4294967295.
Definition ones64 : N := 18446744073709551615.

(* chmod -> chown -> rename -> truncate -> chtimes, in this order; the path follows a rename.
   (uid/gid by name in plain 9P2000 go through the host's user database: not modelled) *)
Definition wstat_plan (dotu : bool) (root path : hpath) (w : wstat_req) : cres :=
  let chmod := if w_mode w =? ones32 then []
               else [SChmod path (N.lor (N.land (w_mode w) 511)
                                        (if dotu then N.lor (bit (has_bit_n (w_mode w) c_DMSETUID) 2048)
                                                            (bit (has_bit_n (w_mode w) c_DMSETGID) 1024) else 0))] in
  let chown := if dotu && (negb (w_uidnum w =? c_NOUID) || negb (w_gidnum w =? c_NOUID))
               then [SChown path (w_uidnum w) (w_gidnum w)] else [] in
  match (match w_name w with
         | [] => Some (path, [])
         | _ => match rename_dest root path (w_name w) with
                | Some d => Some (d, [SRename path d])
                | None => None end
         end) with
  | None => CPlan (chmod ++ chown)          (* rename refused: Eperm after the earlier steps *)
  | Some (path', ren) =>
    let trunc := if w_length w =? ones64 then [] else [STruncate path' (w_length w)] in
    let times := if (w_mtime w =? ones32) && (w_atime w =? ones32) then []
                 else [SChtimes path' (if w_atime w =? ones32 then None else Some (w_atime w))
                                      (if w_mtime w =? ones32 then None else Some (w_mtime w))] in
    CPlan (chmod ++ chown ++ ren ++ trunc ++ times)
  end.

(* the statement's table for wstat *)
Definition wstat_spec (dotu : bool) (root path : hpath) (w : wstat_req) : list sysop :=
  match wstat_plan dotu root path w with
  | CPlan ops => filter mutating ops
  | CRefuse => []
  end.

(* ---------- toError: the errno of the failing call, EIO if there is none ---------- *)
Definition to_error (errno : option N) : N := match errno with Some e => e | None => c_EIO end.
