(* Ufs.Wstat, read field by field: which system calls a Twstat issues, on which object,
   with which arguments, in which order - and that it issues nothing else ("changes
   nothing else" of C17).  The statements mention the request and the plan only; they do
   not go through [wstat_spec], which is defined from the plan. *)
From Coq Require Import NArith List Bool Lia.
From V9 Require Import Lib.GoSem Lib.Bytes Gen.Consts Ufs.Path Ufs.Handlers.
Import ListNotations.
Local Open Scope N_scope.

(* the object the later steps (truncate, chtimes) act on: the fid's path, or the rename's
   destination; None when the rename is refused *)
Definition wstat_target (root path : hpath) (w : wstat_req) : option hpath :=
  match w_name w with
  | [] => Some path
  | _ => rename_dest root path (w_name w)
  end.

Definition is_chmod (o : sysop) := match o with SChmod _ _ => true | _ => false end.
Definition is_chown (o : sysop) := match o with SChown _ _ _ => true | _ => false end.
Definition is_rename (o : sysop) := match o with SRename _ _ => true | _ => false end.
Definition is_trunc (o : sysop) := match o with STruncate _ _ => true | _ => false end.
Definition is_times (o : sysop) := match o with SChtimes _ _ _ => true | _ => false end.

Definition keep32 (v : N) : option N := if v =? ones32 then None else Some v.

(* the plan, split into its five optional steps *)
Lemma wstat_plan_split : forall dotu root path w ops,
  wstat_plan dotu root path w = CPlan ops ->
  exists a b c d e,
    ops = a ++ b ++ c ++ d ++ e /\
    (a = [] \/ exists m, a = [SChmod path m]) /\
    (b = [] \/ b = [SChown path (w_uidnum w) (w_gidnum w)]) /\
    (c = [] \/ exists t, c = [SRename path t] /\ wstat_target root path w = Some t /\ w_name w <> []) /\
    (d = [] \/ exists t, d = [STruncate t (w_length w)] /\ wstat_target root path w = Some t) /\
    (e = [] \/ exists t, e = [SChtimes t (keep32 (w_atime w)) (keep32 (w_mtime w))] /\ wstat_target root path w = Some t).
Proof.
  intros dotu root path w ops H. unfold wstat_plan in H. cbv zeta in H.
  unfold wstat_target, keep32.
  destruct (w_name w) as [|ch nm] eqn:Nm.
  - inversion H; subst ops; clear H.
    eexists _, _, [], _, _. split; [reflexivity|].
    repeat split.
    + destruct (w_mode w =? ones32); [left; reflexivity | right; eexists; reflexivity].
    + destruct (dotu && _); [right; reflexivity | left; reflexivity].
    + left; reflexivity.
    + destruct (w_length w =? ones64); [left; reflexivity | right; eexists; split; reflexivity].
    + destruct ((w_mtime w =? ones32) && (w_atime w =? ones32)); [left; reflexivity | right; eexists; split; reflexivity].
  - destruct (rename_dest root path (ch :: nm)) as [t|] eqn:R.
    + inversion H; subst ops; clear H.
      eexists _, _, [SRename path t], _, _. split; [reflexivity|].
      repeat split.
      * destruct (w_mode w =? ones32); [left; reflexivity | right; eexists; reflexivity].
      * destruct (dotu && _); [right; reflexivity | left; reflexivity].
      * right. exists t. repeat split; discriminate.
      * destruct (w_length w =? ones64); [left; reflexivity | right; eexists; split; reflexivity].
      * destruct ((w_mtime w =? ones32) && (w_atime w =? ones32)); [left; reflexivity | right; eexists; split; reflexivity].
    + inversion H; subst ops; clear H.
      eexists _, _, [], [], []. split; [cbn [app]; f_equal; try reflexivity; symmetry; apply app_nil_r|].
      repeat split; try (left; reflexivity).
      * destruct (w_mode w =? ones32); [left; reflexivity | right; eexists; reflexivity].
      * destruct (dotu && _); [right; reflexivity | left; reflexivity].
Qed.

Ltac destruct_ifs' H :=
  repeat match type of H with context [if ?c then _ else _] => destruct c eqn:? end.

Ltac in_cases Hin :=
  cbn [In app] in Hin;
  repeat (destruct Hin as [Hin|Hin]; [try discriminate|]); try contradiction.

Ltac find_in := cbn [app]; repeat first [left; reflexivity | apply in_or_app; right | right].

(* nothing but metadata calls: no create, open, link, remove *)
Theorem wstat_only_metadata : forall dotu root path w ops o,
  wstat_plan dotu root path w = CPlan ops -> In o ops ->
  is_chmod o || is_chown o || is_rename o || is_trunc o || is_times o = true.
Proof.
  intros dotu root path w ops o H Hin.
  destruct (wstat_plan_split _ _ _ _ _ H) as (a & b & c & d & e & E & Ha & Hb & Hc & Hd & He).
  subst ops. repeat (apply in_app_or in Hin; destruct Hin as [Hin|Hin]).
  - destruct Ha as [->|[m ->]]; in_cases Hin. subst o; reflexivity.
  - destruct Hb as [->| ->]; in_cases Hin. subst o; reflexivity.
  - destruct Hc as [->|(t & -> & _)]; in_cases Hin. subst o; reflexivity.
  - destruct Hd as [->|(t & -> & _)]; in_cases Hin. subst o; reflexivity.
  - destruct He as [->|(t & -> & _)]; in_cases Hin. subst o; reflexivity.
Qed.

Theorem wstat_at_most_five : forall dotu root path w ops,
  wstat_plan dotu root path w = CPlan ops -> (length ops <= 5)%nat.
Proof.
  intros dotu root path w ops H.
  destruct (wstat_plan_split _ _ _ _ _ H) as (a & b & c & d & e & E & Ha & Hb & Hc & Hd & He).
  subst ops. rewrite !app_length.
  assert (length a <= 1)%nat by (destruct Ha as [->|[m ->]]; cbn; lia).
  assert (length b <= 1)%nat by (destruct Hb as [->| ->]; cbn; lia).
  assert (length c <= 1)%nat by (destruct Hc as [->|(t & -> & _)]; cbn; lia).
  assert (length d <= 1)%nat by (destruct Hd as [->|(t & -> & _)]; cbn; lia).
  assert (length e <= 1)%nat by (destruct He as [->|(t & -> & _)]; cbn; lia).
  lia.
Qed.

(* chmod: issued iff the mode is not "don't touch"; on the fid's object; the nine
   permission bits are the requested ones and nothing above the setuid bit is passed *)
Lemma perm_bits : forall mode x, (x = 0 \/ x = 1024 \/ x = 2048 \/ x = 3072) ->
  N.land (N.lor (N.land mode 511) x) 511 = N.land mode 511.
Proof.
  intros mode x Hx. rewrite N.land_lor_distr_l, <- N.land_assoc.
  replace (N.land 511 511) with 511 by reflexivity.
  replace (N.land x 511) with 0 by (destruct Hx as [->|[->|[->| ->]]]; reflexivity).
  apply N.lor_0_r.
Qed.

Theorem wstat_chmod_exact : forall dotu root path w ops,
  wstat_plan dotu root path w = CPlan ops ->
  (forall p m, In (SChmod p m) ops ->
     p = path /\ w_mode w <> ones32 /\ N.land m 511 = N.land (w_mode w) 511) /\
  (w_mode w <> ones32 -> exists m, In (SChmod path m) ops).
Proof.
  intros dotu root path w ops H. split.
  - intros p m Hin. unfold wstat_plan in H. cbv zeta in H.
    assert (Hm : forall l, In (SChmod p m)
       ((if w_mode w =? ones32 then []
         else [SChmod path (N.lor (N.land (w_mode w) 511)
                 (if dotu then N.lor (bit (has_bit_n (w_mode w) c_DMSETUID) 2048)
                                     (bit (has_bit_n (w_mode w) c_DMSETGID) 1024) else 0))]) ++ l) ->
       (forall q k, ~ In (SChmod q k) l) ->
       p = path /\ w_mode w <> ones32 /\ N.land m 511 = N.land (w_mode w) 511).
    { intros l Hl Hno. apply in_app_or in Hl. destruct Hl as [Hl|Hl]; [|exfalso; eapply Hno; exact Hl].
      destruct (w_mode w =? ones32) eqn:E; [contradiction|]. apply N.eqb_neq in E.
      destruct Hl as [Hl|[]]. inversion Hl; subst. split; [reflexivity|]. split; [exact E|].
      apply perm_bits. destruct dotu; [|left; reflexivity].
      unfold bit. destruct (has_bit_n (w_mode w) c_DMSETUID), (has_bit_n (w_mode w) c_DMSETGID); cbn; auto. }
    destruct (w_name w) as [|ch nm] eqn:Nm.
    + inversion H; subst ops; clear H. eapply Hm; [exact Hin|].
      intros q k Hq. destruct_ifs' Hq; in_cases Hq.
    + destruct (rename_dest root path (ch :: nm)) as [t|] eqn:R.
      * inversion H; subst ops; clear H. eapply Hm; [exact Hin|].
        intros q k Hq. destruct_ifs' Hq; in_cases Hq.
      * inversion H; subst ops; clear H. eapply Hm; [exact Hin|].
        intros q k Hq. destruct_ifs' Hq; in_cases Hq.
  - intro Hne. apply N.eqb_neq in Hne. unfold wstat_plan in H. cbv zeta in H. rewrite Hne in H.
    destruct (w_name w) as [|ch nm] eqn:Nm.
    + inversion H; subst ops. eexists. left. reflexivity.
    + destruct (rename_dest root path (ch :: nm)) as [t|] eqn:R; inversion H; subst ops; eexists; left; reflexivity.
Qed.

(* chown: only in 9P2000.u, only when a numeric id is given; on the fid's object, with the request's ids *)
Theorem wstat_chown_exact : forall dotu root path w ops p u g,
  wstat_plan dotu root path w = CPlan ops -> In (SChown p u g) ops ->
  dotu = true /\ p = path /\ u = w_uidnum w /\ g = w_gidnum w /\
  (w_uidnum w <> c_NOUID \/ w_gidnum w <> c_NOUID).
Proof.
  intros dotu root path w ops p u g H Hin. unfold wstat_plan in H. cbv zeta in H.
  assert (Hc : dotu && (negb (w_uidnum w =? c_NOUID) || negb (w_gidnum w =? c_NOUID)) = true ->
               dotu = true /\ (w_uidnum w <> c_NOUID \/ w_gidnum w <> c_NOUID)).
  { intro Hb. apply andb_prop in Hb. destruct Hb as [Hd Ho]. split; [exact Hd|].
    apply orb_prop in Ho. destruct Ho as [Ho|Ho]; apply negb_true_iff, N.eqb_neq in Ho; auto. }
  destruct (w_name w) as [|ch nm] eqn:Nm; [|destruct (rename_dest root path (ch :: nm)) as [t|] eqn:R];
    inversion H; subst ops; clear H;
    destruct (dotu && (negb (w_uidnum w =? c_NOUID) || negb (w_gidnum w =? c_NOUID))) eqn:Eb;
    destruct_ifs' Hin; in_cases Hin;
    inversion Hin; subst; destruct (Hc eq_refl) as [Hd Ho]; repeat split; auto.
Qed.

(* truncate: issued iff a length is given and the rename (if any) was allowed; on the
   target, with the requested length *)
Theorem wstat_truncate_exact : forall dotu root path w ops,
  wstat_plan dotu root path w = CPlan ops ->
  (forall p len, In (STruncate p len) ops ->
     wstat_target root path w = Some p /\ len = w_length w /\ w_length w <> ones64) /\
  (forall t, wstat_target root path w = Some t -> w_length w <> ones64 ->
     In (STruncate t (w_length w)) ops).
Proof.
  intros dotu root path w ops H. unfold wstat_plan in H. cbv zeta in H. unfold wstat_target. split.
  - intros p len Hin.
    destruct (w_name w) as [|ch nm] eqn:Nm; [|destruct (rename_dest root path (ch :: nm)) as [t|] eqn:R];
      inversion H; subst ops; clear H;
      destruct (w_length w =? ones64) eqn:El;
      destruct_ifs' Hin; in_cases Hin;
      inversion Hin; subst; apply N.eqb_neq in El; repeat split; auto.
  - intros t Ht Hl. apply N.eqb_neq in Hl.
    destruct (w_name w) as [|ch nm] eqn:Nm.
    + inversion Ht; subst t. inversion H; subst ops; clear H. rewrite Hl.
      find_in.
    + rewrite Ht in H. inversion H; subst ops; clear H. rewrite Hl.
      find_in.
Qed.

(* chtimes: issued iff a time is given; a time at its "don't touch" value is passed as
   "keep" (D32: it used to be passed as the year 2106) *)
Theorem wstat_chtimes_exact : forall dotu root path w ops,
  wstat_plan dotu root path w = CPlan ops ->
  (forall p a m, In (SChtimes p a m) ops ->
     wstat_target root path w = Some p /\ a = keep32 (w_atime w) /\ m = keep32 (w_mtime w) /\
     (w_atime w <> ones32 \/ w_mtime w <> ones32)) /\
  (forall t, wstat_target root path w = Some t -> (w_atime w <> ones32 \/ w_mtime w <> ones32) ->
     In (SChtimes t (keep32 (w_atime w)) (keep32 (w_mtime w))) ops).
Proof.
  intros dotu root path w ops H. unfold wstat_plan in H. cbv zeta in H. unfold wstat_target, keep32. split.
  - intros p a m Hin.
    assert (Hb : (w_mtime w =? ones32) && (w_atime w =? ones32) = false ->
                 w_atime w <> ones32 \/ w_mtime w <> ones32).
    { intro Hb. apply andb_false_iff in Hb. destruct Hb as [Hb|Hb]; apply N.eqb_neq in Hb; auto. }
    destruct (w_name w) as [|ch nm] eqn:Nm; [|destruct (rename_dest root path (ch :: nm)) as [t|] eqn:R];
      inversion H; subst ops; clear H;
      destruct ((w_mtime w =? ones32) && (w_atime w =? ones32)) eqn:Eb;
      destruct_ifs' Hin; in_cases Hin;
      inversion Hin; subst; repeat split; auto.
  - intros t Ht Hne.
    assert (Eb : (w_mtime w =? ones32) && (w_atime w =? ones32) = false).
    { apply andb_false_iff. destruct Hne as [Hne|Hne]; apply N.eqb_neq in Hne; auto. }
    destruct (w_name w) as [|ch nm] eqn:Nm.
    + inversion Ht; subst t. inversion H; subst ops; clear H. rewrite Eb.
      find_in.
    + rewrite Ht in H. inversion H; subst ops; clear H. rewrite Eb.
      find_in.
Qed.

(* order: chmod, chown, rename, truncate, chtimes *)
Theorem wstat_order : forall dotu root path w ops,
  wstat_plan dotu root path w = CPlan ops ->
  exists a b c d e, ops = a ++ b ++ c ++ d ++ e /\
    forallb is_chmod a = true /\ forallb is_chown b = true /\ forallb is_rename c = true /\
    forallb is_trunc d = true /\ forallb is_times e = true.
Proof.
  intros dotu root path w ops H.
  destruct (wstat_plan_split _ _ _ _ _ H) as (a & b & c & d & e & E & Ha & Hb & Hc & Hd & He).
  exists a, b, c, d, e. split; [exact E|].
  repeat split.
  - destruct Ha as [->|[m ->]]; reflexivity.
  - destruct Hb as [->| ->]; reflexivity.
  - destruct Hc as [->|(t & -> & _)]; reflexivity.
  - destruct Hd as [->|(t & -> & _)]; reflexivity.
  - destruct He as [->|(t & -> & _)]; reflexivity.
Qed.
