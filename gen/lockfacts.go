package main

func genLockFacts(repo, out string) {
	writeIfChanged(out, []byte("(* GENERATED placeholder: lock facts translator not built yet *)\n"))
}
