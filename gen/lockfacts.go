package main

// lockfacts: for every function of the library, every access to a field of the
// shared structs (Srv, Conn, SrvReq, SrvFid, Clnt, Req, Fid, Logger, osUsers,
// ClntList, Pool, Tag), every channel operation, goroutine start and call into the
// file-server implementation, together with the set of mutexes held at that point.
//
// Lockset tracking is syntactic and follows the patterns this code base uses:
// x.Lock() / x.Unlock() / defer x.Unlock() on a value of a struct type embedding
// sync.Mutex; statements are walked in source order, branches (if/else, switch,
// select, for) with a copy of the current lockset, joined by intersection.
// A construct the translator cannot handle is a hard error.

import (
	"bytes"
	"fmt"
	"go/ast"
	"go/token"
	"go/types"
	"sort"
	"strings"
)

var trackedStructs = map[string]bool{"Srv": true, "Conn": true, "SrvReq": true, "SrvFid": true, "Clnt": true, "Req": true,
	"Fid": true, "Logger": true, "osUsers": true, "ClntList": true, "Pool": true, "Tag": true, "ufsFid": true, "File": true}

var opsInterfaces = map[string]bool{"SrvReqOps": true, "AuthOps": true, "FlushOp": true, "SrvFidOps": true, "ConnOps": true,
	"SrvReqProcessOps": true}

type lockT struct {
	owner string // struct type of the locked object
	base  string // source text of the locked object
}

type factT struct {
	fn    string
	kind  string // R | W | SEND | RECV | GO | OPS | CLOSE
	strct string
	field string
	base  string
	locks []lockT
	fresh bool // the accessed object was allocated in this function (not yet shared)
	line  int
}

type lfCtx struct {
	p        *pkgInfo
	fn       string
	recv     string // name of the method's receiver ("" for functions)
	facts    *[]factT
	fresh    map[string]bool
	deferred []lockT // mutexes unlocked by a defer
}

// the receiver is written "self" in bases and lock objects, whatever the method calls it
func (c *lfCtx) norm(base string) string {
	if c.recv != "" && base == c.recv {
		return "self"
	}
	return base
}

func exprText(fset *token.FileSet, e ast.Expr) string {
	var b bytes.Buffer
	_ = ast.Fprint(&b, fset, nil, nil)
	return types.ExprString(e)
}

func namedStruct(t types.Type) string {
	for {
		if p, ok := t.(*types.Pointer); ok {
			t = p.Elem()
			continue
		}
		break
	}
	if n, ok := t.(*types.Named); ok {
		if _, ok := n.Underlying().(*types.Struct); ok {
			return n.Obj().Name()
		}
	}
	return ""
}

func copyLocks(l []lockT) []lockT { return append([]lockT{}, l...) }

func intersect(a, b []lockT) []lockT {
	var out []lockT
	for _, x := range a {
		for _, y := range b {
			if x == y {
				out = append(out, x)
				break
			}
		}
	}
	return out
}

func (c *lfCtx) add(kind, strct, field, base string, locks []lockT, pos token.Pos) {
	*c.facts = append(*c.facts, factT{fn: c.fn, kind: kind, strct: strct, field: field, base: c.norm(base), locks: copyLocks(locks),
		fresh: c.fresh[base], line: c.p.fset.Position(pos).Line})
}

// lockCall recognises x.Lock() / x.Unlock(); returns (owner, base, isLock, ok)
func (c *lfCtx) lockCall(call *ast.CallExpr) (lockT, bool, bool) {
	sel, ok := call.Fun.(*ast.SelectorExpr)
	if !ok || (sel.Sel.Name != "Lock" && sel.Sel.Name != "Unlock") || len(call.Args) != 0 {
		return lockT{}, false, false
	}
	tv, ok := c.p.info.Types[sel.X]
	if !ok {
		return lockT{}, false, false
	}
	owner := namedStruct(tv.Type)
	if owner == "" {
		return lockT{}, false, false
	}
	return lockT{owner, c.norm(types.ExprString(sel.X))}, sel.Sel.Name == "Lock", true
}

// accesses records the field reads in an expression (writes are handled by the caller)
func (c *lfCtx) reads(e ast.Node, locks []lockT) {
	if e == nil {
		return
	}
	ast.Inspect(e, func(n ast.Node) bool {
		switch x := n.(type) {
		case *ast.FuncLit:
			// a closure: analysed as its own function with an empty lockset (it may run later)
			sub := &lfCtx{p: c.p, fn: c.fn + ".func", recv: c.recv, facts: c.facts, fresh: map[string]bool{}}
			sub.block(x.Body.List, nil)
			return false
		case *ast.SelectorExpr:
			if s, ok := c.p.info.Selections[x]; ok && s.Kind() == types.FieldVal {
				owner := namedStruct(s.Recv())
				if trackedStructs[owner] {
					c.add("R", owner, x.Sel.Name, types.ExprString(x.X), locks, x.Pos())
				}
			}
		case *ast.UnaryExpr:
			if x.Op == token.ARROW {
				c.chanOp("RECV", x.X, locks, x.Pos())
			}
		case *ast.CallExpr:
			c.call(x, locks)
		}
		return true
	})
}

func (c *lfCtx) chanOp(kind string, ch ast.Expr, locks []lockT, pos token.Pos) {
	strct, field, base := "", types.ExprString(ch), ""
	if sel, ok := ch.(*ast.SelectorExpr); ok {
		if s, ok := c.p.info.Selections[sel]; ok && s.Kind() == types.FieldVal {
			strct, field, base = namedStruct(s.Recv()), sel.Sel.Name, types.ExprString(sel.X)
		}
	}
	c.add(kind, strct, field, base, locks, pos)
}

func (c *lfCtx) call(call *ast.CallExpr, locks []lockT) {
	// calls into the implementation: method of one of the ops interfaces
	if sel, ok := call.Fun.(*ast.SelectorExpr); ok {
		if s, ok := c.p.info.Selections[sel]; ok && s.Kind() == types.MethodVal {
			if n, ok := s.Recv().(*types.Named); ok {
				if _, isIface := n.Underlying().(*types.Interface); isIface && opsInterfaces[n.Obj().Name()] {
					c.add("OPS", n.Obj().Name(), sel.Sel.Name, "", locks, call.Pos())
				}
			}
		}
	}
	// method call on a value of a tracked struct type: who is called on what
	if sel, ok := call.Fun.(*ast.SelectorExpr); ok {
		if s, ok := c.p.info.Selections[sel]; ok && s.Kind() == types.MethodVal {
			if owner := namedStruct(s.Recv()); trackedStructs[owner] && sel.Sel.Name != "Lock" && sel.Sel.Name != "Unlock" {
				c.add("CALL", owner, sel.Sel.Name, types.ExprString(sel.X), locks, call.Pos())
			}
		}
	}
	if id, ok := call.Fun.(*ast.Ident); ok {
		switch id.Name {
		case "close":
			if len(call.Args) == 1 {
				c.chanOp("CLOSE", call.Args[0], locks, call.Pos())
			}
		case "delete":
			if len(call.Args) == 2 {
				c.write(call.Args[0], locks)
			}
		}
	}
}

// write records a write to the field designated by lhs (x.f = .., x.f[k] = .., x.f++)
func (c *lfCtx) write(lhs ast.Expr, locks []lockT) {
	switch x := lhs.(type) {
	case *ast.SelectorExpr:
		if s, ok := c.p.info.Selections[x]; ok && s.Kind() == types.FieldVal {
			owner := namedStruct(s.Recv())
			if trackedStructs[owner] {
				c.add("W", owner, x.Sel.Name, types.ExprString(x.X), locks, x.Pos())
			}
		}
		c.reads(x.X, locks)
	case *ast.IndexExpr:
		c.write(x.X, locks)
		c.reads(x.Index, locks)
	case *ast.StarExpr:
		c.reads(x.X, locks)
	case *ast.ParenExpr:
		c.write(x.X, locks)
	default:
		c.reads(lhs, locks)
	}
}

// heldAtReturn records every mutex still held where the function returns (deferred unlocks excepted):
// a critical section that is left without its Unlock
func (c *lfCtx) heldAtReturn(locks []lockT, pos token.Pos) {
	for _, h := range locks {
		def := false
		for _, d := range c.deferred {
			if d == h {
				def = true
			}
		}
		if !def {
			c.add("HELDRET", h.owner, "", h.base, locks, pos)
		}
	}
}

// stmt processes one statement and returns the lockset after it
func (c *lfCtx) stmt(s ast.Stmt, locks []lockT) []lockT {
	switch x := s.(type) {
	case nil:
		return locks
	case *ast.ExprStmt:
		if call, ok := x.X.(*ast.CallExpr); ok {
			if l, isLock, ok := c.lockCall(call); ok {
				if isLock {
					return append(copyLocks(locks), l)
				}
				var out []lockT
				removed := false
				for _, h := range locks {
					if h == l && !removed {
						removed = true
						continue
					}
					out = append(out, h)
				}
				return out
			}
		}
		c.reads(x.X, locks)
	case *ast.DeferStmt:
		if l, isLock, ok := c.lockCall(x.Call); ok && !isLock {
			c.deferred = append(c.deferred, l)
			return locks // defer x.Unlock(): the lock stays held to the end of the function
		}
		c.reads(x.Call, locks)
	case *ast.AssignStmt:
		for _, r := range x.Rhs {
			c.reads(r, locks)
			// x := new(T) / &T{} / make: the object is fresh
			if len(x.Lhs) == 1 {
				if id, ok := x.Lhs[0].(*ast.Ident); ok {
					switch rr := r.(type) {
					case *ast.CallExpr:
						if f, ok := rr.Fun.(*ast.Ident); ok && f.Name == "new" {
							c.fresh[id.Name] = true
						}
					case *ast.UnaryExpr:
						if _, ok := rr.X.(*ast.CompositeLit); ok && rr.Op == token.AND {
							c.fresh[id.Name] = true
						}
					}
				}
			}
		}
		for _, l := range x.Lhs {
			if x.Tok == token.DEFINE {
				if _, ok := l.(*ast.Ident); ok {
					continue
				}
			}
			c.write(l, locks)
		}
	case *ast.IncDecStmt:
		c.write(x.X, locks)
	case *ast.SendStmt:
		c.reads(x.Value, locks)
		c.chanOp("SEND", x.Chan, locks, x.Pos())
		if sel, ok := x.Chan.(*ast.SelectorExpr); ok {
			c.reads(sel.X, locks)
		}
	case *ast.GoStmt:
		c.add("GO", "", types.ExprString(x.Call.Fun), "", locks, x.Pos())
		for _, a := range x.Call.Args {
			c.reads(a, locks)
		}
		if fl, ok := x.Call.Fun.(*ast.FuncLit); ok {
			sub := &lfCtx{p: c.p, fn: c.fn + ".go", recv: c.recv, facts: c.facts, fresh: map[string]bool{}}
			sub.block(fl.Body.List, nil)
		}
	case *ast.ReturnStmt:
		for _, r := range x.Results {
			c.reads(r, locks)
		}
		c.heldAtReturn(locks, x.Pos())
	case *ast.BlockStmt:
		return c.block(x.List, locks)
	case *ast.IfStmt:
		locks = c.stmt(x.Init, locks)
		c.reads(x.Cond, locks)
		a := c.block(x.Body.List, copyLocks(locks))
		b := locks
		if x.Else != nil {
			b = c.stmt(x.Else, copyLocks(locks))
		}
		if endsInJump(x.Body) {
			return b
		}
		if x.Else != nil {
			if eb, ok := x.Else.(*ast.BlockStmt); ok && endsInJump(eb) {
				return a
			}
		}
		return intersect(a, b)
	case *ast.ForStmt:
		locks = c.stmt(x.Init, locks)
		c.reads(x.Cond, locks)
		body := c.block(x.Body.List, copyLocks(locks))
		c.stmt(x.Post, body)
		return locks
	case *ast.RangeStmt:
		c.reads(x.X, locks)
		c.block(x.Body.List, copyLocks(locks))
		return locks
	case *ast.SwitchStmt:
		locks = c.stmt(x.Init, locks)
		c.reads(x.Tag, locks)
		return c.clauses(x.Body.List, locks)
	case *ast.TypeSwitchStmt:
		locks = c.stmt(x.Init, locks)
		c.stmt(x.Assign, locks)
		return c.clauses(x.Body.List, locks)
	case *ast.SelectStmt:
		return c.clauses(x.Body.List, locks)
	case *ast.LabeledStmt:
		return c.stmt(x.Stmt, locks)
	case *ast.DeclStmt:
		c.reads(x, locks)
	case *ast.BranchStmt, *ast.EmptyStmt:
	default:
		die("lockfacts: unhandled statement %T in %s", s, c.fn)
	}
	return locks
}

func endsInJump(b *ast.BlockStmt) bool {
	if b == nil || len(b.List) == 0 {
		return false
	}
	switch b.List[len(b.List)-1].(type) {
	case *ast.ReturnStmt, *ast.BranchStmt:
		return true
	}
	return false
}

func (c *lfCtx) clauses(list []ast.Stmt, locks []lockT) []lockT {
	var outs [][]lockT
	for _, cl := range list {
		switch x := cl.(type) {
		case *ast.CaseClause:
			for _, e := range x.List {
				c.reads(e, locks)
			}
			o := c.block(x.Body, copyLocks(locks))
			if len(x.Body) == 0 || !isJump(x.Body[len(x.Body)-1]) {
				outs = append(outs, o)
			}
		case *ast.CommClause:
			l2 := c.stmt(x.Comm, copyLocks(locks))
			o := c.block(x.Body, l2)
			if len(x.Body) == 0 || !isJump(x.Body[len(x.Body)-1]) {
				outs = append(outs, o)
			}
		}
	}
	res := locks
	for _, o := range outs {
		res = intersect(res, o)
	}
	return res
}

func isJump(s ast.Stmt) bool {
	switch s.(type) {
	case *ast.ReturnStmt, *ast.BranchStmt:
		return true
	}
	return false
}

func (c *lfCtx) block(list []ast.Stmt, locks []lockT) []lockT {
	for _, s := range list {
		locks = c.stmt(s, locks)
	}
	return locks
}

func endsInReturn(s ast.Stmt) bool {
	_, ok := s.(*ast.ReturnStmt)
	return ok
}

func coqString(s string) string {
	return "\"" + strings.ReplaceAll(s, "\"", "\"\"") + "\""
}

func genLockFacts(repo, out string) {
	p := load(repo)
	var facts []factT
	files := map[string]bool{"srv_srv.go": true, "srv_conn.go": true, "srv_fcall.go": true, "srv_respond.go": true,
		"clnt_clnt.go": true, "clnt_pool.go": true, "clnt_tag.go": true, "clnt_mount.go": true, "clnt_read.go": true,
		"clnt_write.go": true, "clnt_open.go": true, "clnt_walk.go": true, "clnt_stat.go": true, "clnt_close.go": true,
		"clnt_remove.go": true, "log.go": true, "osusers.go": true, "ufs.go": true}
	for _, f := range p.files {
		name := p.fset.Position(f.Pos()).Filename
		base := name[strings.LastIndex(name, "/")+1:]
		if !files[base] {
			continue
		}
		for _, d := range f.Decls {
			fd, ok := d.(*ast.FuncDecl)
			if !ok || fd.Body == nil {
				continue
			}
			recv := ""
			if fd.Recv != nil && len(fd.Recv.List) > 0 && len(fd.Recv.List[0].Names) > 0 {
				recv = fd.Recv.List[0].Names[0].Name
			}
			c := &lfCtx{p: p, fn: funcName(fd), recv: recv, facts: &facts, fresh: map[string]bool{}}
			end := c.block(fd.Body.List, nil)
			if n := len(fd.Body.List); n == 0 || !endsInReturn(fd.Body.List[n-1]) {
				c.heldAtReturn(end, fd.Body.Rbrace)
			}
		}
	}
	// canonical order, duplicates merged; line numbers only in comments
	sort.SliceStable(facts, func(i, j int) bool {
		a, b := facts[i], facts[j]
		if a.fn != b.fn {
			return a.fn < b.fn
		}
		return a.line < b.line
	})
	var b bytes.Buffer
	b.WriteString("(* GENERATED by /verif/gen (lockfacts) from /repo's working tree on every check run. Do not edit. *)\n")
	b.WriteString("From Coq Require Import String List Bool.\nImport ListNotations.\nLocal Open Scope string_scope.\n\n")
	b.WriteString("Inductive akind := AR | AW | ASend | ARecv | AGo | AOps | AClose | ACall | AHeldRet.\n")
	b.WriteString("Record lockfact := mkLF { lf_fn : string; lf_kind : akind; lf_struct : string; lf_field : string; lf_base : string;\n")
	b.WriteString("  lf_locks : list (string * string) (* owner struct, locked object *); lf_fresh : bool }.\n\n")
	b.WriteString("Definition lock_facts : list lockfact := [\n")
	kindName := map[string]string{"R": "AR", "W": "AW", "SEND": "ASend", "RECV": "ARecv", "GO": "AGo", "OPS": "AOps", "CLOSE": "AClose", "CALL": "ACall", "HELDRET": "AHeldRet"}
	seen := map[string]bool{}
	first := true
	for _, f := range facts {
		var ls []string
		for _, l := range f.locks {
			ls = append(ls, fmt.Sprintf("(%s, %s)", coqString(l.owner), coqString(l.base)))
		}
		fr := "false"
		if f.fresh {
			fr = "true"
		}
		line := fmt.Sprintf("  mkLF %s %s %s %s %s [%s] %s", coqString(f.fn), kindName[f.kind], coqString(f.strct), coqString(f.field),
			coqString(f.base), strings.Join(ls, "; "), fr)
		if seen[line] {
			continue
		}
		seen[line] = true
		if !first {
			b.WriteString(";\n")
		}
		first = false
		b.WriteString(line)
	}
	b.WriteString("\n].\n")
	writeIfChanged(out, b.Bytes())
}
