package main

// shape: for every function of the library, the sequence of its notable events in source order:
//
//	call:<name>          a call (method or function name); calls to verifPoint are skipped
//	lock:<T> unlock:<T>  Lock / Unlock on a value of struct type T (defer unlock:<T> for a deferred Unlock)
//	send:<f> recv:<f> close:<f>   channel operations on the field f (or the expression text)
//	set:<T>.<f>          assignment to a field of a tracked struct
//	use:<T>.<f>          read of a field of a tracked struct
//	go:<name>            go statement
//	local:<v>=<kind>     (receive loops only) assignment to the local byte slice v; kind: make, slice:<x>, <ident>, call, other
//	return
//
// Events inside a function literal carry the suffix @f. The models' structural parameters
// (which critical section contains what, what happens before what) are stated over these
// sequences in Coq (Shape/*.v) and re-checked against the current source on every run.

import (
	"bytes"
	"fmt"
	"go/ast"
	"go/token"
	"go/types"
	"sort"
	"strings"
)

var shapeStructs = map[string]bool{"Srv": true, "Conn": true, "SrvReq": true, "SrvFid": true, "Clnt": true, "Req": true,
	"Fid": true, "Logger": true, "ufsFid": true, "Fcall": true, "Ufs": true, "Tag": true}

// functions in which assignments to local byte slices are events too:
//
//	local:<name>=<make|slice:<x>|<ident>|call|other>
var shapeLocals = map[string]bool{"Conn.recv": true, "Clnt.recv": true}

func genShape(repo, out string) {
	p := load(repo)
	type fn struct {
		name string
		evs  []string
	}
	var fns []fn
	for _, f := range p.files {
		name := p.fset.Position(f.Pos()).Filename
		base := name[strings.LastIndex(name, "/")+1:]
		if strings.HasPrefix(base, "verif_") {
			continue
		}
		for _, d := range f.Decls {
			fd, ok := d.(*ast.FuncDecl)
			if !ok || fd.Body == nil {
				continue
			}
			var evs []string
			fname := fd.Name.Name
			if fd.Recv != nil && len(fd.Recv.List) == 1 {
				t := fd.Recv.List[0].Type
				if st, ok := t.(*ast.StarExpr); ok {
					t = st.X
				}
				if id, ok := t.(*ast.Ident); ok {
					fname = id.Name + "." + fname
				}
			}
			depth := 0
			add := func(s string) {
				if depth > 0 {
					s += "@f"
				}
				evs = append(evs, s)
			}
			lhs := map[ast.Expr]bool{}
			var walk func(n ast.Node) bool
			walk = func(n ast.Node) bool {
				switch x := n.(type) {
				case *ast.FuncLit:
					depth++
					ast.Inspect(x.Body, walk)
					depth--
					return false
				case *ast.AssignStmt:
					for _, r := range x.Rhs {
						ast.Inspect(r, walk)
					}
					for _, l := range x.Lhs {
						if sel, ok := l.(*ast.SelectorExpr); ok {
							if s, ok := p.info.Selections[sel]; ok && s.Kind() == types.FieldVal {
								if owner := namedStruct(s.Recv()); shapeStructs[owner] {
									add("set:" + owner + "." + sel.Sel.Name)
									lhs[sel] = true
									ast.Inspect(sel.X, walk)
									continue
								}
							}
						}
						ast.Inspect(l, walk)
					}
					if shapeLocals[fname] {
						for i, l := range x.Lhs {
							id, ok := l.(*ast.Ident)
							if !ok || id.Name == "_" {
								continue
							}
							obj := p.info.ObjectOf(id)
							v, ok := obj.(*types.Var)
							if !ok || v.IsField() || v.Parent() == nil || v.Parent() == v.Pkg().Scope() {
								continue
							}
							if sl, ok := v.Type().Underlying().(*types.Slice); !ok || sl.Elem().String() != "byte" && sl.Elem().String() != "uint8" {
								continue
							}
							kind := "other"
							if len(x.Lhs) == len(x.Rhs) {
								switch r := x.Rhs[i].(type) {
								case *ast.CallExpr:
									if f, ok := r.Fun.(*ast.Ident); ok && f.Name == "make" {
										kind = "make"
									} else {
										kind = "call"
									}
								case *ast.SliceExpr:
									if b, ok := r.X.(*ast.Ident); ok {
										kind = "slice:" + b.Name
									}
								case *ast.Ident:
									kind = r.Name
								}
							}
							add("local:" + id.Name + "=" + kind)
						}
					}
					return false
				case *ast.IncDecStmt:
					if sel, ok := x.X.(*ast.SelectorExpr); ok {
						if s, ok := p.info.Selections[sel]; ok && s.Kind() == types.FieldVal {
							if owner := namedStruct(s.Recv()); shapeStructs[owner] {
								add("set:" + owner + "." + sel.Sel.Name)
								return false
							}
						}
					}
				case *ast.SendStmt:
					ast.Inspect(x.Value, walk)
					add("send:" + chanName(x.Chan))
					return false
				case *ast.UnaryExpr:
					if x.Op == token.ARROW {
						add("recv:" + chanName(x.X))
						return false
					}
				case *ast.GoStmt:
					add("go:" + callName(x.Call))
					for _, a := range x.Call.Args {
						ast.Inspect(a, walk)
					}
					return false
				case *ast.DeferStmt:
					if sel, ok := x.Call.Fun.(*ast.SelectorExpr); ok && sel.Sel.Name == "Unlock" {
						if tv, ok := p.info.Types[sel.X]; ok {
							add("defer unlock:" + namedStruct(tv.Type))
							return false
						}
					}
				case *ast.ReturnStmt:
					for _, r := range x.Results {
						ast.Inspect(r, walk)
					}
					add("return")
					return false
				case *ast.CallExpr:
					nm := callName(x)
					if nm == "verifPoint" || nm == "verifB" || nm == "verifRkind" {
						return false
					}
					if sel, ok := x.Fun.(*ast.SelectorExpr); ok && (sel.Sel.Name == "Lock" || sel.Sel.Name == "Unlock") && len(x.Args) == 0 {
						if tv, ok := p.info.Types[sel.X]; ok {
							if owner := namedStruct(tv.Type); owner != "" {
								add(strings.ToLower(sel.Sel.Name) + ":" + owner)
								return false
							}
						}
					}
					if id, ok := x.Fun.(*ast.Ident); ok && id.Name == "close" && len(x.Args) == 1 {
						add("close:" + chanName(x.Args[0]))
						return false
					}
					// arguments first (evaluation order), then the call
					if sel, ok := x.Fun.(*ast.SelectorExpr); ok {
						ast.Inspect(sel.X, walk)
					}
					for _, a := range x.Args {
						ast.Inspect(a, walk)
					}
					add("call:" + nm)
					return false
				case *ast.SelectorExpr:
					if lhs[x] {
						return true
					}
					if s, ok := p.info.Selections[x]; ok && s.Kind() == types.FieldVal {
						if owner := namedStruct(s.Recv()); shapeStructs[owner] {
							ast.Inspect(x.X, walk)
							add("use:" + owner + "." + x.Sel.Name)
							return false
						}
					}
				}
				return true
			}
			ast.Inspect(fd.Body, walk)
			fns = append(fns, fn{funcName(fd), evs})
		}
	}
	sort.SliceStable(fns, func(i, j int) bool { return fns[i].name < fns[j].name })
	var b bytes.Buffer
	b.WriteString("(* GENERATED by /verif/gen (shape) from /repo's working tree on every check run. Do not edit. *)\n")
	b.WriteString("From Coq Require Import String List.\nImport ListNotations.\nLocal Open Scope string_scope.\n\n")
	b.WriteString("Definition shapes : list (string * list string) := [\n")
	for i, f := range fns {
		var q []string
		for _, e := range f.evs {
			q = append(q, coqString(e))
		}
		sep := ";"
		if i == len(fns)-1 {
			sep = ""
		}
		fmt.Fprintf(&b, "  (%s, [%s])%s\n", coqString(f.name), strings.Join(q, "; "), sep)
	}
	b.WriteString("].\n")
	writeIfChanged(out, b.Bytes())
}

func chanName(e ast.Expr) string {
	if sel, ok := e.(*ast.SelectorExpr); ok {
		return sel.Sel.Name
	}
	return types.ExprString(e)
}

func callName(c *ast.CallExpr) string {
	switch f := c.Fun.(type) {
	case *ast.SelectorExpr:
		return f.Sel.Name
	case *ast.Ident:
		return f.Name
	case *ast.FuncLit:
		return "func"
	}
	return types.ExprString(c.Fun)
}
