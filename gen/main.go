// gen: translator from /repo's Go source to Coq definitions.
//
//	gen consts <repo> <out.v>     constants, tables, error values, channel capacities
//	gen lockfacts <repo> <out.v>  lockset facts per field access / channel op / ops call (see lockfacts.go)
//	gen shape <repo> <out.v>      event sequence of every function in source order (see shape.go)
//
// Standard library only (go/ast, go/types with the source importer); works offline.
// A construct the translator cannot read is a hard error (exit 2), never skipped.
package main

import (
	"bytes"
	"fmt"
	"go/ast"
	"go/constant"
	"go/importer"
	"go/parser"
	"go/token"
	"go/types"
	"os"
	"path/filepath"
	"sort"
	"strings"
)

type pkgInfo struct {
	fset  *token.FileSet
	files []*ast.File
	info  *types.Info
	pkg   *types.Package
}

func die(format string, a ...interface{}) {
	fmt.Fprintf(os.Stderr, "gen: "+format+"\n", a...)
	os.Exit(2)
}

func load(repo string) *pkgInfo {
	fset := token.NewFileSet()
	ents, err := os.ReadDir(repo)
	if err != nil {
		die("%v", err)
	}
	var files []*ast.File
	for _, e := range ents {
		n := e.Name()
		if !strings.HasSuffix(n, ".go") || strings.HasSuffix(n, "_test.go") {
			continue
		}
		src, err := os.ReadFile(filepath.Join(repo, n))
		if err != nil {
			die("%v", err)
		}
		// honour build constraints the simple way: skip files tagged for the
		// other side of our own guard; everything else in this repo builds on unix.
		head := string(src)
		if i := strings.Index(head, "package "); i >= 0 {
			head = head[:i]
		}
		if strings.Contains(head, "//go:build !verif") {
			continue
		}
		f, err := parser.ParseFile(fset, filepath.Join(repo, n), src, parser.ParseComments)
		if err != nil {
			die("parse %s: %v", n, err)
		}
		files = append(files, f)
	}
	info := &types.Info{
		Types:      map[ast.Expr]types.TypeAndValue{},
		Defs:       map[*ast.Ident]types.Object{},
		Uses:       map[*ast.Ident]types.Object{},
		Selections: map[*ast.SelectorExpr]*types.Selection{},
	}
	conf := types.Config{Importer: importer.ForCompiler(fset, "source", nil), Error: func(err error) {}}
	pkg, _ := conf.Check("go9p", fset, files, info)
	if pkg == nil {
		die("type check failed")
	}
	return &pkgInfo{fset, files, info, pkg}
}

func coqBytes(s string) string {
	var b bytes.Buffer
	b.WriteString("[")
	for i := 0; i < len(s); i++ {
		if i > 0 {
			b.WriteString("; ")
		}
		fmt.Fprintf(&b, "%d", s[i])
	}
	b.WriteString("]")
	return b.String()
}

func (p *pkgInfo) constN(name string) string {
	o := p.pkg.Scope().Lookup(name)
	c, ok := o.(*types.Const)
	if !ok {
		die("constant %s not found", name)
	}
	v := constant.ToInt(c.Val())
	if v.Kind() != constant.Int {
		die("constant %s is not an integer", name)
	}
	return v.ExactString()
}

// table returns the integer elements of a package-level `var name = [...]T{...}`.
func (p *pkgInfo) table(name string) []string {
	for _, f := range p.files {
		for _, d := range f.Decls {
			gd, ok := d.(*ast.GenDecl)
			if !ok || gd.Tok != token.VAR {
				continue
			}
			for _, s := range gd.Specs {
				vs := s.(*ast.ValueSpec)
				for i, id := range vs.Names {
					if id.Name != name || i >= len(vs.Values) {
						continue
					}
					cl, ok := vs.Values[i].(*ast.CompositeLit)
					if !ok {
						die("table %s: not a composite literal", name)
					}
					var out []string
					for _, e := range cl.Elts {
						tv, ok := p.info.Types[e]
						if !ok || tv.Value == nil {
							die("table %s: non-constant element", name)
						}
						out = append(out, constant.ToInt(tv.Value).ExactString())
					}
					return out
				}
			}
		}
	}
	die("table %s not found", name)
	return nil
}

// errVar reads `var X error = &Error{"text", NUM}`.
func (p *pkgInfo) errVar(name string) (string, string) {
	for _, f := range p.files {
		for _, d := range f.Decls {
			gd, ok := d.(*ast.GenDecl)
			if !ok || gd.Tok != token.VAR {
				continue
			}
			for _, s := range gd.Specs {
				vs := s.(*ast.ValueSpec)
				for i, id := range vs.Names {
					if id.Name != name || i >= len(vs.Values) {
						continue
					}
					ue, ok := vs.Values[i].(*ast.UnaryExpr)
					if !ok {
						die("error var %s: unexpected form", name)
					}
					cl, ok := ue.X.(*ast.CompositeLit)
					if !ok || len(cl.Elts) != 2 {
						die("error var %s: unexpected form", name)
					}
					t0 := p.info.Types[cl.Elts[0]]
					t1 := p.info.Types[cl.Elts[1]]
					if t0.Value == nil || t1.Value == nil {
						die("error var %s: non-constant", name)
					}
					return constant.StringVal(t0.Value), constant.ToInt(t1.Value).ExactString()
				}
			}
		}
	}
	die("error var %s not found", name)
	return "", ""
}

func funcName(fd *ast.FuncDecl) string {
	if fd.Recv != nil && len(fd.Recv.List) > 0 {
		t := fd.Recv.List[0].Type
		if st, ok := t.(*ast.StarExpr); ok {
			t = st.X
		}
		if id, ok := t.(*ast.Ident); ok {
			return id.Name + "." + fd.Name.Name
		}
	}
	return fd.Name.Name
}

// chanCaps finds `<x>.<field> = make(chan T, <const>)` and returns field -> capacity
// (or "sym:<expr>" for a non-constant capacity, "0" for no capacity argument).
func (p *pkgInfo) chanCaps() map[string]string {
	out := map[string]string{}
	for _, f := range p.files {
		for _, d := range f.Decls {
			fd, ok := d.(*ast.FuncDecl)
			if !ok || fd.Body == nil {
				continue
			}
			fn := funcName(fd)
			ast.Inspect(fd.Body, func(n ast.Node) bool {
				as, ok := n.(*ast.AssignStmt)
				if !ok || len(as.Lhs) != 1 || len(as.Rhs) != 1 {
					return true
				}
				call, ok := as.Rhs[0].(*ast.CallExpr)
				if !ok {
					return true
				}
				id, ok := call.Fun.(*ast.Ident)
				if !ok || id.Name != "make" || len(call.Args) < 1 {
					return true
				}
				if _, ok := call.Args[0].(*ast.ChanType); !ok {
					return true
				}
				var lhs string
				switch l := as.Lhs[0].(type) {
				case *ast.SelectorExpr:
					lhs = l.Sel.Name
				case *ast.Ident:
					lhs = l.Name
				default:
					return true
				}
				key := fn + "." + lhs
				if len(call.Args) == 1 {
					out[key] = "0"
				} else if tv := p.info.Types[call.Args[1]]; tv.Value != nil {
					out[key] = constant.ToInt(tv.Value).ExactString()
				} else {
					var b bytes.Buffer
					_ = ast.Fprint(&b, nil, nil, nil)
					out[key] = "sym"
				}
				return true
			})
		}
	}
	return out
}

// bufFactor returns the single constant k such that every `make([]byte, X*k)` in
// function fn uses it.
func (p *pkgInfo) bufFactor(fn string) string {
	found := map[string]bool{}
	for _, f := range p.files {
		for _, d := range f.Decls {
			fd, ok := d.(*ast.FuncDecl)
			if !ok || fd.Body == nil || funcName(fd) != fn {
				continue
			}
			ast.Inspect(fd.Body, func(n ast.Node) bool {
				call, ok := n.(*ast.CallExpr)
				if !ok {
					return true
				}
				id, ok := call.Fun.(*ast.Ident)
				if !ok || id.Name != "make" || len(call.Args) != 2 {
					return true
				}
				if _, ok := call.Args[0].(*ast.ArrayType); !ok {
					return true
				}
				be, ok := call.Args[1].(*ast.BinaryExpr)
				if !ok || be.Op != token.MUL {
					found["?"] = true
					return true
				}
				if tv := p.info.Types[be.Y]; tv.Value != nil {
					found[constant.ToInt(tv.Value).ExactString()] = true
				} else if tv := p.info.Types[be.X]; tv.Value != nil {
					found[constant.ToInt(tv.Value).ExactString()] = true
				} else {
					found["?"] = true
				}
				return true
			})
		}
	}
	if len(found) != 1 || found["?"] {
		die("buffer factor of %s: expected exactly one constant multiplier, got %v", fn, found)
	}
	for k := range found {
		return k
	}
	return ""
}

func genConsts(repo, out string) {
	p := load(repo)
	var b bytes.Buffer
	b.WriteString("(* GENERATED by /verif/gen from /repo's working tree on every check run. Do not edit. *)\n")
	b.WriteString("From Coq Require Import NArith List.\nImport ListNotations.\nLocal Open Scope N_scope.\n\n")
	names := []string{"Tversion", "Rversion", "Tauth", "Rauth", "Tattach", "Rattach", "Terror", "Rerror",
		"Tflush", "Rflush", "Twalk", "Rwalk", "Topen", "Ropen", "Tcreate", "Rcreate", "Tread", "Rread",
		"Twrite", "Rwrite", "Tclunk", "Rclunk", "Tremove", "Rremove", "Tstat", "Rstat", "Twstat", "Rwstat", "Tlast",
		"MSIZE", "IOHDRSZ", "NOTAG", "NOFID", "NOUID",
		"QTDIR", "QTAPPEND", "QTEXCL", "QTMOUNT", "QTAUTH", "QTTMP", "QTSYMLINK", "QTLINK", "QTFILE",
		"OREAD", "OWRITE", "ORDWR", "OEXEC", "OTRUNC", "OCEXEC", "ORCLOSE",
		"DMDIR", "DMAPPEND", "DMEXCL", "DMMOUNT", "DMAUTH", "DMTMP", "DMSYMLINK", "DMLINK", "DMDEVICE",
		"DMNAMEDPIPE", "DMSOCKET", "DMSETUID", "DMSETGID", "DMREAD", "DMWRITE", "DMEXEC",
		"EPERM", "ENOENT", "EIO", "EEXIST", "ENOTDIR", "EINVAL",
		"reqFlush", "reqWork", "reqResponded", "reqSaved"}
	for _, n := range names {
		fmt.Fprintf(&b, "Definition c_%s : N := %s.\n", n, p.constN(n))
	}
	b.WriteString("\n")
	for _, t := range []string{"minFcsize", "minFcusize"} {
		fmt.Fprintf(&b, "Definition c_%s : list N := [%s].\n", t, strings.Join(p.table(t), "; "))
	}
	b.WriteString("\n")
	for _, e := range []string{"Eunknownfid", "Enoauth", "Einuse", "Ebaduse", "Eopen", "Enotdir", "Eperm",
		"Etoolarge", "Ebadoffset", "Edirchange", "Enouser", "Enotimpl"} {
		s, n := p.errVar(e)
		fmt.Fprintf(&b, "Definition c_%s_text : list N := %s. (* %q *)\nDefinition c_%s_num : N := %s.\n", e, coqBytes(s), s, e, n)
	}
	b.WriteString("\n")
	caps := p.chanCaps()
	keys := make([]string, 0, len(caps))
	for k := range caps {
		keys = append(keys, k)
	}
	sort.Strings(keys)
	want := map[string]string{
		"Srv.NewConn.rchan": "cap_rchan", "Srv.NewConn.done": "cap_srv_done",
		"NewClnt.reqout": "cap_clnt_reqout", "NewClnt.done": "cap_clnt_done",
		"NewClnt.reqchan": "cap_clnt_reqchan", "NewClnt.tchan": "cap_clnt_tchan",
		"NewLogger.logchan": "cap_logchan", "NewLogger.fltchan": "cap_fltchan",
		"Clnt.TagAlloc.respchan": "cap_tag_respchan",
	}
	for k, cn := range want {
		if _, ok := caps[k]; !ok {
			die("channel %s not found (have %v)", k, keys)
		}
		_ = cn
	}
	wk := make([]string, 0, len(want))
	for k := range want {
		wk = append(wk, k)
	}
	sort.Strings(wk)
	for _, k := range wk {
		if caps[k] == "sym" {
			die("channel %s: capacity is not a constant", k)
		}
		fmt.Fprintf(&b, "Definition c_%s : N := %s. (* %s *)\n", want[k], caps[k], k)
	}
	if caps["Srv.NewConn.reqout"] != "sym" {
		die("Srv.NewConn.reqout: expected capacity srv.Maxpend, got %q", caps["Srv.NewConn.reqout"])
	}
	b.WriteString("(* Srv.NewConn.reqout has capacity srv.Maxpend (symbolic) *)\n")
	fmt.Fprintf(&b, "Definition c_bufmul_srv : N := %s.\n", p.bufFactor("Conn.recv"))
	fmt.Fprintf(&b, "Definition c_bufmul_clnt : N := %s.\n", p.bufFactor("Clnt.recv"))
	writeIfChanged(out, b.Bytes())
}

func writeIfChanged(path string, data []byte) {
	old, err := os.ReadFile(path)
	if err == nil && bytes.Equal(old, data) {
		return
	}
	if err := os.MkdirAll(filepath.Dir(path), 0o755); err != nil {
		die("%v", err)
	}
	if err := os.WriteFile(path, data, 0o644); err != nil {
		die("%v", err)
	}
}

func main() {
	if len(os.Args) != 4 {
		die("usage: gen consts|lockfacts|shape <repo> <out.v>")
	}
	switch os.Args[1] {
	case "consts":
		genConsts(os.Args[2], os.Args[3])
	case "lockfacts":
		genLockFacts(os.Args[2], os.Args[3])
	case "shape":
		genShape(os.Args[2], os.Args[3])
	default:
		die("unknown mode %s", os.Args[1])
	}
}
