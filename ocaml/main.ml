(* modelcheck <mode> < cases  -- prints one verdict line per input line:
   OK | DIFF <what> | ORACLE <clause> ... ; exit status 0 always (the Python
   driver interprets the lines). *)
let modes : (string * (string -> string)) list = [
  "log", Mode_log.check_line;
  "codec", Mode_codec.check_line;
  "srvseq", Mode_srvseq.check_line;
  "recv", Mode_recv.check_line;
  "ufs", Mode_ufs.check_line;
  "conc", Mode_conc.check_line;
  "clnt", Mode_clnt.check_line;
  "ufstree", Mode_ufstree.check_line;
  "fidref", Mode_fidref.check_line;
  "bufref", Mode_bufref.check_line;
  "clntref", Mode_clntref.check_line;
]

let () =
  let mode = if Array.length Sys.argv > 1 then Sys.argv.(1) else "" in
  let f = try List.assoc mode modes with Not_found ->
    prerr_endline ("modelcheck: unknown mode " ^ mode); exit 2 in
  (try
     while true do
       let l = input_line stdin in
       if String.length l > 0 && l.[0] <> '#' then begin
         let v = try f l with
           | Failure m -> "HARNESSERROR " ^ m
           | Invalid_argument m -> "HARNESSERROR invalid argument " ^ m
           | Stack_overflow -> "HARNESSERROR stack overflow"
           | Not_found -> "HARNESSERROR not found" in
         print_endline v
       end
     done
   with End_of_file -> ())
