(* C03: the life cycle of the reply buffers of the real server (taken from the pool or allocated,
   packed, queued, written, recycled) replayed through Srv/Buf.v; at every Write the bytes the
   transport was given are compared with what was packed for that request.
   BL <kind> <n> <label>* ; NOTE <text>
   labels: TF r | TP r b | GP r v | RS r | RF r | DQ r | W r v | RC r | RD r *)
open Bufmodel
open Conv

let rec bnat_of_int (i : int) : Bufmodel.nat = if i <= 0 then Bufmodel.O else Bufmodel.S (bnat_of_int (i - 1))
let rec int_of_bnat (n : Bufmodel.nat) : int = match n with Bufmodel.O -> 0 | Bufmodel.S m -> 1 + int_of_bnat m

(* content ids are 32-bit hashes: too large for Peano numbers; they are interned per case *)
let check_line (l : string) : string =
  let t = toks_of_line l in
  expect t "BL";
  let kind = next t in
  let n = next_int t in
  let interned : (string, int) Hashtbl.t = Hashtbl.create 16 in
  let intern (s : string) : int =
    match Hashtbl.find_opt interned s with
    | Some i -> i
    | None -> let i = Hashtbl.length interned + 1 in Hashtbl.add interned s i; i in
  let labels = repeat_read n (fun () ->
    match next t with
    | "TF" -> let r = next_int t in ("TF", r, -1, "")
    | "TP" -> let r = next_int t in let b = next_int t in ("TP", r, b, "")
    | "GP" -> let r = next_int t in let v = next t in ("GP", r, -1, v)
    | "RS" -> let r = next_int t in ("RS", r, -1, "")
    | "RF" -> let r = next_int t in ("RF", r, -1, "")
    | "DQ" -> let r = next_int t in ("DQ", r, -1, "")
    | "W" -> let r = next_int t in let v = next t in ("W", r, -1, v)
    | "RC" -> let r = next_int t in ("RC", r, -1, "")
    | "RD" -> let r = next_int t in ("RD", r, -1, "")
    | x -> failwith ("bad label " ^ x)) in
  let where = Printf.sprintf "kind=%s" kind in
  let verdict = ref "OK" in
  let set v = if !verdict = "OK" then verdict := v in
  let s = ref Bufmodel.init in
  let stop = ref false in
  List.iteri (fun i (name, r, b, v) ->
    if not !stop && r >= 0 then begin
      let rn = bnat_of_int r in
      let lab = match name with
        | "TF" -> Some (LTakeFresh rn)
        | "TP" ->
          (* the buffer the library took must be the head of the model's pool *)
          (match (!s).pool with
           | h :: _ when int_of_bnat h = b -> Some (LTakePool rn)
           | h :: _ -> set (Printf.sprintf "DIFF step %d: request %d took buffer %d, the model's pool head is %d %s" i r b (int_of_bnat h) where); stop := true; None
           | [] -> set (Printf.sprintf "DIFF step %d: request %d took pooled buffer %d, the model's pool is empty %s" i r b where); stop := true; None)
        | "GP" -> Some (LGuardPack (rn, bnat_of_int (intern v)))
        | "RS" -> Some (LRespond rn)
        | "RF" -> Some (LRespondFlushed rn)
        | "DQ" -> Some (LDequeue rn)
        | "W" -> Some (LWrite rn)
        | "RC" -> Some (LRecycle rn)
        | _ -> None (* RD: dropped, the buffer is never seen again *) in
      match lab with
      | None -> ()
      | Some lab ->
        (* the oracle on what the transport saw: before the model step, from the buffer's packed content *)
        (if name = "W" then
           match Bufmodel.buf_of !s rn with
           | Some (_, bf) ->
             (match bf.b_content with
              | Some (r', v') ->
                if int_of_bnat r' <> r || int_of_bnat v' <> intern v then
                  set (Printf.sprintf "ORACLE C03.bytes_written_differ_from_bytes_packed request=%d step=%d %s" r i where)
              | None -> set (Printf.sprintf "ORACLE C03.bytes_written_differ_from_bytes_packed request=%d step=%d nothing-packed %s" r i where))
           | None -> ());
        (match Bufmodel.step Bufmodel.fixed_cfg !s lab with
         | Some s' -> s := s'
         | None ->
           (* a pack for an already answered request cannot happen in the library (test and pack are
              one critical section): everything not enabled is a disagreement *)
           set (Printf.sprintf "DIFF step %d (%s %d): not enabled in the model %s" i name r where); stop := true)
    end) labels;
  !verdict
