(* C14 / C15: file data and directory reads through client + Ufs (harness/ufsio.go). *)
open Model
open Conv
open Mode_codec

(* ---------- Z conversions ---------- *)
let z_of_int (i : int) : z = if i = 0 then Z0 else if i > 0 then Zpos (pos_of_int i) else Zneg (pos_of_int (-i))
let int_of_z (x : z) : int = match x with Z0 -> 0 | Zpos p -> int_of_pos p | Zneg p -> - (int_of_pos p)

(* ---------- C14 ---------- *)
let check_io (t : toks) : string =
  let msize = next_n t in let dotu = next_bool t in let iounit = next_n t in
  let file0 = next_bytes t in
  let nops = next_int t in
  let ops = ref [] and outs = ref [] and bad = ref "" in
  for i = 1 to nops do
    let op = match next t with
      | "R" -> let o = next_n t in let c = next_n t in FRead (o, c)
      | "N" -> let o = next_n t in let c = next_n t in FReadn (o, c)
      | "S" -> FSeqRead (next_n t)
      | "W" -> let o = next_n t in let d = next_bytes t in FWrite (o, d)
      | "X" -> let o = next_n t in let d = next_bytes t in FWritten (o, d)
      | "Q" -> FSeqWrite (next_bytes t)
      | x -> failwith ("bad io op " ^ x) in
    expect t "=>";
    let out = match next t with
      | "D" -> OData (next_bytes t)
      | "C" -> OCount (next_n t)
      | "EOF" -> OEOF
      | "ERR" -> OErr
      | x -> failwith ("bad io out " ^ x) in
    expect t "V";
    if not (next_bool t) && !bad = "" then bad := Printf.sprintf "ORACLE C14.differs_from_underlying_file op#%d msize=%s" i (string_of_n msize);
    ops := op :: !ops; outs := out :: !outs
  done;
  expect t ";"; expect t "FINAL";
  let final = next_bytes t in
  expect t "V";
  if not (next_bool t) && !bad = "" then bad := "ORACLE C14.other_open_file_changed";
  expect t "KEEP";
  if not (next_bool t) && !bad = "" then bad := "ORACLE C14.data_returned_by_read_changed_after_later_replies";
  ignore dotu;
  if !bad <> "" then !bad
  else begin
    let ops = List.rev !ops and outs = List.rev !outs in
    let ((mfile, _), mouts) = frun msize iounit (file0, N0) ops in
    let out_eq a b = match a, b with
      | OData x, OData y -> beq x y
      | OCount x, OCount y -> N.eqb x y
      | OEOF, OEOF | OErr, OErr -> true
      | OData [], OEOF | OEOF, OData [] -> false
      | _ -> false in
    let rec cmp i ms os = match ms, os with
      | [], [] -> if beq mfile final then "OK" else "DIFF io final-file"
      | m :: ms', o :: os' -> if out_eq m o then cmp (i + 1) ms' os' else Printf.sprintf "DIFF io op#%d msize=%s iounit=%s" i (string_of_n msize) (string_of_n iounit)
      | _ -> "DIFF io count" in
    cmp 1 mouts outs
  end

(* ---------- C15 ---------- *)
let read_sizes t n = repeat_read n (fun () -> next_int t)
let ends_of_sizes sizes = let acc = ref 0 in List.map (fun s -> acc := !acc + s; !acc) sizes

let dres_str = function DOk n -> "OK " ^ string_of_int (int_of_z n) | DBadOffset -> "BADOFFSET" | DTooSmall -> "TOOSMALL" | DPanic -> "PANIC"

let check_dir (t : toks) : string =
  let _dotu = next_bool t in let msize = next_int t in
  let nent = next_int t in
  let sizes = read_sizes t nent in
  expect t "CNT"; let count = next_int t in
  expect t "CH"; let k = next_int t in
  let chunks = repeat_read k (fun () -> let o = next_int t in let n = next_int t in (o, n)) in
  expect t "END"; let endst = next t in
  expect t "NAMES"; let names_ok = next_bool t in
  let where = Printf.sprintf "nent=%d count=%d msize=%d" nent count msize in
  if endst = "REF" then (if names_ok then "OK" else "ORACLE C15.reference_listing_differs_from_os_readdir " ^ where)
  else begin
    let ends = ends_of_sizes sizes in
    let total = List.fold_left (+) 0 sizes in
    let maxsz = List.fold_left max 0 sizes in
    let boundary b = b = 0 || List.mem b ends in
    (* ---- oracle, from the record sizes only ---- *)
    let rec walk off = function
      | [] -> Stdlib.Ok off
      | (o, n) :: rest ->
        if o <> off then Stdlib.Error "C15.offset_rule_broken"
        else if n <= 0 || n > count then Stdlib.Error "C15.reply_longer_than_count_or_empty"
        else if not (boundary o) || not (boundary (o + n)) then Stdlib.Error "C15.reply_not_whole_entries"
        else walk (o + n) rest in
    let oracle =
      if not names_ok then "ORACLE C15.entries_not_decodable_or_wrong_set " ^ where
      else match walk 0 chunks with
        | Stdlib.Error e -> "ORACLE " ^ e ^ " " ^ where
        | Stdlib.Ok reached ->
          (match endst with
           | "OK" -> if reached <> total then "ORACLE C15.listing_incomplete " ^ where else "OK"
           | "TOOSMALL" ->
             (* the next entry must really be larger than count *)
             let next = (try List.find (fun e -> e > reached) ends - reached with Not_found -> 0) in
             if next <= count then "ORACLE C15.error_although_count_suffices " ^ where else "OK"
           | _ -> if count >= maxsz then "ORACLE C15.listing_failed " ^ endst ^ " " ^ where else "OK") in
    let oracle = if oracle = "OK" && count >= maxsz && endst <> "OK" then "ORACLE C15.listing_failed " ^ endst ^ " " ^ where else oracle in
    if oracle <> "OK" then oracle
    else begin
      let zends = List.map z_of_int ends in
      let counts = List.init (nent + 3) (fun _ -> z_of_int count) in
      let (mch, mres) = listing zends Z0 counts in
      let mch = List.map (fun (o, n) -> (int_of_z o, int_of_z n)) mch in
      let mend = (match mres with DOk _ -> "OK" | DTooSmall -> "TOOSMALL" | DBadOffset -> "BADOFFSET" | DPanic -> "PANIC") in
      if mch <> chunks then Printf.sprintf "DIFF dir chunks model=%d impl=%d %s" (List.length mch) (List.length chunks) where
      else if mend <> endst then Printf.sprintf "DIFF dir end model=%s impl=%s %s" mend endst where
      else "OK"
    end
  end

let check_dirx (t : toks) : string =
  let _dotu = next_bool t in
  let nent = next_int t in
  let sizes = read_sizes t nent in
  expect t "OFF"; let off = next_int t in
  expect t "CNT"; let cnt = next_int t in
  expect t "=>";
  let res = (match next t with "OK" -> "OK " ^ string_of_int (next_int t) | x -> x) in
  expect t "ALIVE"; let alive = next_bool t in
  let where = Printf.sprintf "nent=%d off=%d cnt=%d" nent off cnt in
  if not alive then "ORACLE C06.server_died_on_directory_read " ^ where
  else begin
    let ends = ends_of_sizes sizes in
    let total = List.fold_left (+) 0 sizes in
    let boundary b = b = 0 || List.mem b ends in
    let oracle =
      (match String.split_on_char ' ' res with
       | ["OK"; n] ->
         let n = int_of_string n in
         if n > cnt then "ORACLE C15.reply_longer_than_count " ^ where
         else if off <= total && n > 0 && (not (boundary off) || not (boundary (off + n))) then "ORACLE C15.reply_not_whole_entries " ^ where
         else if off >= total && n <> 0 then "ORACLE C15.data_past_end " ^ where
         else "OK"
       | _ -> "OK") in
    if oracle <> "OK" then oracle
    else begin
      let m = dres_str (dir_window (List.map z_of_int ends) (z_of_int off) (z_of_int cnt)) in
      if m = res then "OK" else Printf.sprintf "DIFF dir_window model=%s impl=%s %s" m res where
    end
  end

let check_line (l : string) : string =
  let t = toks_of_line l in
  match next t with
  | "IO" -> check_io t
  | "DIR" -> check_dir t
  | "DIRX" -> check_dirx t
  | "IOC" ->
    let msize = next t in let _ = next t in let flen = next t in
    expect t "READS"; let _ = next t in expect t "WRONG";
    let w = next_int t in
    if w = 0 then "OK" else Printf.sprintf "ORACLE C14.concurrent_reads_of_one_file_wrong wrong=%d msize=%s flen=%s" w msize flen
  | "DIRR" ->
    if String.length l > 6 && (let n = String.length l in String.sub l (n - 6) 6 = "SAME 1") then "OK"
    else "ORACLE C15.reread_from_offset_0_differs"
  | "RDDIR" ->
    let _ = next t in let _ = next t in let nent = next t in
    expect t "NAMES";
    if next_bool t then "OK" else "ORACLE C15.readdir_incomplete nent=" ^ nent
  | "IOFAR" ->
    let msize = next t in let _ = next t in let flen = next t in
    expect t "SAME";
    if next_bool t then "OK" else Printf.sprintf "ORACLE C14.read_beyond_4GiB_returns_data_or_fails msize=%s filelen=%s" msize flen
  | "RDSMALL" ->
    let _ = next t in let msize = next t in let pos = next t in
    expect t "ERR";
    if next_bool t then "OK"
    else Printf.sprintf "ORACLE C15.readdir_hides_the_too_small_error msize=%s large_entry_at=%s" msize pos
  | x -> failwith ("mode ufs: bad record " ^ x)
