(* C11 (and C04 under concurrency): the fid life-time trace of the real server replayed
   through Srv/FidRef.v, every step compared with the values the library reported
   (refcount, linked flag, refusal), and the oracle on FidDestroy counts.
   FL <nlabels> <label>* ; OBJ <n> {<id> <num> <destroys>}*n ; UNK <k> ; Q <0|1> ; T <0|1> ; NOTE <text> *)
open Fidref
open Conv

let rec fnat_of_int (i : int) : Fidref.nat = if i <= 0 then Fidref.O else Fidref.S (fnat_of_int (i - 1))
let rec int_of_fnat (n : Fidref.nat) : int = match n with Fidref.O -> 0 | Fidref.S m -> 1 + int_of_fnat m
let rec int_of_fpos (p : Fidref.positive) : int =
  match p with Fidref.XH -> 1 | Fidref.XO q -> 2 * int_of_fpos q | Fidref.XI q -> 2 * int_of_fpos q + 1
let int_of_fz (z : Fidref.z) : int = match z with Fidref.Z0 -> 0 | Fidref.Zpos p -> int_of_fpos p | Fidref.Zneg p -> - (int_of_fpos p)

let nth_opt l i = if i < 0 then None else List.nth_opt l i

type rep = NoRep | Rc of int | RcFlag of int * int

let check_line (l : string) : string =
  let t = toks_of_line l in
  expect t "FL";
  let n = next_int t in
  let labels = repeat_read n (fun () ->
    match next t with
    | "N" -> let id = next_int t in let num = next_int t in (LNew (fnat_of_int num), id, NoRep, "N")
    | "K" -> let id = next_int t in (LLookup (fnat_of_int (-1)), id, NoRep, "K")   (* number filled in below *)
    | "G" -> let id = next_int t in let rc = next_int t in let r = next_int t in (LGetInc (fnat_of_int id), id, RcFlag (rc, r), "G")
    | "R" -> let id = next_int t in let rc = next_int t in let lk = next_int t in (LRetain (fnat_of_int id), id, RcFlag (rc, lk), "R")
    | "UR" -> let id = next_int t in let rc = next_int t in let lk = next_int t in (LUnlinkReq (fnat_of_int id), id, RcFlag (rc, lk), "UR")
    | "UC" -> let id = next_int t in let rc = next_int t in let lk = next_int t in (LUnlinkClose (fnat_of_int id), id, RcFlag (rc, lk), "UC")
    | "DO" -> let id = next_int t in let rc = next_int t in (LDecOwed (fnat_of_int id), id, Rc rc, "DO")
    | "DH" -> let id = next_int t in let rc = next_int t in (LDecHeld (fnat_of_int id), id, Rc rc, "DH")
    | "I" -> let id = next_int t in let rc = next_int t in (LIncHeld (fnat_of_int id), id, Rc rc, "I")
    | "X" -> let id = next_int t in (LDestroy (fnat_of_int id), id, NoRep, "X")
    | "C" -> (LClose, -1, NoRep, "C")
    | x -> failwith ("bad label " ^ x)) in
  expect t ";"; expect t "OBJ";
  let nobj = next_int t in
  let objs_seen = repeat_read nobj (fun () -> let id = next_int t in let num = next_int t in let d = next_int t in (id, num, d)) in
  expect t ";"; expect t "UNK"; let unk = next_int t in
  expect t ";"; expect t "Q"; let quiet = next_int t = 1 in
  expect t ";"; expect t "T"; let traced = next_int t = 1 in
  let verdict = ref "OK" in
  let set v = if !verdict = "OK" then verdict := v in
  (* the oracle: what the implementation was told *)
  List.iter (fun (id, num, d) ->
    if d > 1 then set (Printf.sprintf "ORACLE C11.fid_reported_destroyed_%d_times obj=%d fid=%d" d id num)
    else if quiet && d = 0 then set (Printf.sprintf "ORACLE C11.fid_never_reported_destroyed obj=%d fid=%d" id num)) objs_seen;
  if traced && unk > 0 then set (Printf.sprintf "ORACLE C11.destroy_of_unknown_fid count=%d" unk);
  if not quiet then set "ORACLE C11.connection_never_quiet_after_disconnect";
  (* the correspondence: replay *)
  if traced then begin
    let s = ref Fidref.init in
    let stop = ref false in
    List.iteri (fun i (lab, id, rep, name) ->
      if not !stop then begin
        let lab = match lab with
          | LLookup _ -> (match nth_opt (!s).objs id with
                          | Some o -> LLookup o.o_num
                          | None -> lab)
          | _ -> lab in
        (* a lookup must find exactly the object the library found *)
        (match lab with
         | LLookup num -> (match Fidref.tlook (!s).table num with
                           | Some j when int_of_fnat j = id -> ()
                           | _ -> set (Printf.sprintf "DIFF step %d: lookup finds obj %d in the library, the model's table does not" i id); stop := true)
         | _ -> ());
        if not !stop then
        match Fidref.step true !s lab with
        | None -> set (Printf.sprintf "DIFF step %d (%s %d): not enabled in the model" i name id); stop := true
        | Some s' ->
          (match nth_opt s'.objs id, rep with
           | Some o, Rc rc ->
             if int_of_fz o.o_rc <> rc then begin set (Printf.sprintf "DIFF step %d (%s %d): refcount library=%d model=%d" i name id rc (int_of_fz o.o_rc)); stop := true end
           | Some o, RcFlag (rc, f) ->
             if int_of_fz o.o_rc <> rc then begin set (Printf.sprintf "DIFF step %d (%s %d): refcount library=%d model=%d" i name id rc (int_of_fz o.o_rc)); stop := true end
             else begin
               (* the flag: G refused / R linked after / U* linked before *)
               let before = nth_opt (!s).objs id in
               let mflag = match name, before with
                 | "G", Some b -> if (b.o_creating || b.o_dead) then 1 else 0
                 | "R", _ -> if o.o_linked then 1 else 0
                 | ("UR" | "UC"), Some b -> if b.o_linked then 1 else 0
                 | _ -> f in
               if mflag <> f then begin set (Printf.sprintf "DIFF step %d (%s %d): flag library=%d model=%d" i name id f mflag); stop := true end
             end
           | _, _ -> ());
          s := s'
      end) labels;
    if not !stop then begin
      (* destroy counts *)
      List.iter (fun (id, _, d) ->
        match nth_opt (!s).objs id with
        | Some o -> if int_of_fnat o.o_destroyed <> d then set (Printf.sprintf "DIFF destroy count obj=%d library=%d model=%d" id d (int_of_fnat o.o_destroyed))
        | None -> set (Printf.sprintf "DIFF obj %d unknown to the model" id)) objs_seen
    end
  end;
  !verdict
