(* C04 / C05 / C12 (sequential server): histories from harness/srvseq.go.
   H <msize> <dotu> <auth> <n> { Q <reqhex> S <ans> AC <authcheck> R <hex|NONE> E <k> <event>*k }*n CLOSE E <k> <event>*k *)
open Model
open Conv
open Mode_codec

type ievent =
  | IFwd of n * n * msg
  | IAuth of n * string
  | IAuthCheck of n * n
  | IDestroy of n
  | IOpened
  | IClosed

let read_event (t : toks) : ievent =
  match next t with
  | "FWD" -> let f = next_n t in let u = next_n t in let m = read_msg t in IFwd (f, u, m)
  | "AUTH" -> let f = next_n t in let k = next t in IAuth (f, k)
  | "AUTHCHECK" -> let f = next_n t in let a = next_n t in IAuthCheck (f, a)
  | "DESTROY" -> IDestroy (next_n t)
  | "OPENED" -> IOpened
  | "CLOSED" -> IClosed
  | x -> failwith ("bad event " ^ x)

let read_events (t : toks) : ievent list =
  expect t "E";
  let k = next_int t in
  repeat_read k (fun () -> read_event t)

let read_ans (t : toks) : ans =
  match next t with
  | "OK" -> AOk (read_msg t)
  | "ERR" -> let e = next_bytes t in let n = next_n t in AErr (e, n)
  | x -> failwith ("bad ans " ^ x)

let kind_of_name = function
  | "Tauth" -> 102 | "Tread" -> 116 | "Twrite" -> 118 | "Tclunk" -> 120 | _ -> -1

let event_eq (m : event) (i : ievent) : bool =
  match m, i with
  | EvFwd (t, f, u), IFwd (f', u', t') -> N.eqb f f' && N.eqb u u' && msg_eq t t'
  | EvAuth (t, a), IAuth (a', k) -> N.eqb a a' && int_of_n (typ t) = kind_of_name k
  | EvAuthCheck (f, a), IAuthCheck (f', a') -> N.eqb f f' && N.eqb a a'
  | EvDestroy k, IDestroy k' -> N.eqb k k'
  | _ -> false

let ev_str = function
  | IFwd (f, u, m) -> Printf.sprintf "FWD(%s,%s,ty%s)" (string_of_n f) (string_of_n u) (string_of_n (typ m))
  | IAuth (f, k) -> Printf.sprintf "AUTH(%s,%s)" (string_of_n f) k
  | IAuthCheck (f, a) -> Printf.sprintf "AUTHCHECK(%s,%s)" (string_of_n f) (string_of_n a)
  | IDestroy k -> "DESTROY(" ^ string_of_n k ^ ")"
  | IOpened -> "OPENED" | IClosed -> "CLOSED"

let mev_str = function
  | EvFwd (t, f, u) -> Printf.sprintf "FWD(%s,%s,ty%s)" (string_of_n f) (string_of_n u) (string_of_n (typ t))
  | EvAuth (t, a) -> Printf.sprintf "AUTH(%s,ty%s)" (string_of_n a) (string_of_n (typ t))
  | EvAuthCheck (f, a) -> Printf.sprintf "AUTHCHECK(%s,%s)" (string_of_n f) (string_of_n a)
  | EvDestroy k -> "DESTROY(" ^ string_of_n k ^ ")"

let is_fwd_i = function IFwd _ | IAuth _ -> true | _ -> false
let count_destroy_i k l = List.length (List.filter (function IDestroy k' -> N.eqb k k' | _ -> false) l)

let rec is_prefix (a : n list) (b : n list) = match a, b with
  | [], _ -> true | x :: a', y :: b' -> N.eqb x y && is_prefix a' b' | _ -> false

(* error text as received may be truncated to the room a small msize leaves *)
let text_matches (got : n list) (want : n list) (msize : n) =
  beq got want || (is_prefix got want && List.length got = max 0 (int_of_n msize - 13))

let tname (t : msg) = string_of_n (typ t)

let check_line (l : string) : string =
  let t = toks_of_line l in
  expect t "H";
  let msize = next_n t in let dotu = next_bool t in let auth = next_bool t in
  let nreq = next_int t in
  let cfg = start_cfg msize dotu auth in
  let c = ref (conn_init cfg) in
  let v : (n * n) list ref = ref [] in   (* abstract valid set, from the implementation's replies *)
  let ov : (n * n) list ref = ref [] in  (* abstract open state (0 closed, 1 + mode open), from requests and replies only *)
  let tv : (n * n) list ref = ref [] in  (* abstract type bits, from requests and replies only *)
  let verdict = ref "OK" in
  let dead = ref false in
  let set_verdict s = if !verdict = "OK" then verdict := s in
  let diffed = ref false in
  for i = 1 to nreq do
    expect t "Q"; let q = next_bytes t in
    expect t "S"; let a = read_ans t in
    expect t "AC";
    let ac = match next t with "-" -> None | h -> let e = bytes_of_hex h in let n = next_n t in Some (e, n) in
    expect t "R";
    let r = match next t with "NONE" -> None | h -> Some (bytes_of_hex h) in
    let ev = List.filter (function IOpened -> false | _ -> true) (read_events t) in
    if not !dead && not !diffed then begin
      let sc = { sc_ans = a; sc_authcheck = ac } in
      let c0 = !c in
      let qlen = List.length q in
      let where = Printf.sprintf "req#%d" i in
      if qlen > int_of_n c0.c_msize then begin
        (* C12: a frame announcing more than msize drops the connection *)
        dead := true;
        (match r with
         | Some _ -> set_verdict ("ORACLE C12.oversize_frame_answered " ^ where)
         | None -> ());
        if List.exists is_fwd_i ev then set_verdict ("ORACLE C12.oversize_frame_executed " ^ where)
      end else
        match unpack c0.c_dotu q with
        | Ok ((tag, tm), _) ->
          let (c1r, mev) = seq_step cfg c0 tm sc in
          let (c1, mr) = c1r in
          let fwd_i = List.exists is_fwd_i ev in
          let kind = tname tm in
          (match r with
           | None -> set_verdict (Printf.sprintf "ORACLE C06.no_reply %s kind=%s" where kind); dead := true
           | Some rb ->
             (* ---- oracles on the implementation's behaviour ---- *)
             (match unpack c1.c_dotu rb with
              | Ok ((rtag, rm), _) ->
                if not (N.eqb rtag tag) then set_verdict ("ORACLE C03.reply_tag " ^ where);
                let is_err = (match rm with Rerror_ _ -> true | _ -> false) in
                let err_text = (match rm with Rerror_ (e, _) -> e | _ -> []) in
                (* C12 *)
                if List.length rb > int_of_n c0.c_msize then
                  set_verdict (Printf.sprintf "ORACLE C12.reply_exceeds_msize %s kind=%s len=%d msize=%s" where kind
                                 (List.length rb) (string_of_n c0.c_msize));
                (match tm with
                 | Tversion_ (ms, ver) ->
                   if N.ltb ms c_IOHDRSZ then begin
                     if not is_err then set_verdict ("ORACLE C12.small_msize_accepted " ^ where)
                   end else begin
                     let want_ms = if N.ltb ms c0.c_msize then ms else c0.c_msize in
                     let want_u = beq ver ver_u && cfg.s_dotu in
                     (match rm with
                      | Rversion_ (m', v') ->
                        if not (N.eqb m' want_ms) then set_verdict ("ORACLE C12.rversion_msize_not_min " ^ where)
                        else if not (beq v' (if want_u then ver_u else ver_p)) then set_verdict ("ORACLE C12.rversion_dialect " ^ where)
                      | _ -> set_verdict ("ORACLE C12.tversion_refused " ^ where))
                   end
                 | _ -> ());
                (* C04: unknown fid / fid in use, against the abstract set v *)
                let named = tfid tm in
                if takes_fid tm then begin
                  let valid_now = (match vget !v named with Some _ -> true | None -> false) in
                  if not valid_now then begin
                    if not (is_err && text_matches err_text c_Eunknownfid_text c0.c_msize) then
                      set_verdict (Printf.sprintf "ORACLE C04.invalid_fid_not_refused|C05.request_on_an_invalid_fid_not_refused %s kind=%s fid=%s" where kind (string_of_n named))
                    else if fwd_i then
                      set_verdict (Printf.sprintf "ORACLE C04.invalid_fid_forwarded|C05.request_on_an_invalid_fid_forwarded %s kind=%s" where kind)
                  end else if is_err && beq err_text c_Eunknownfid_text
                            && not (match tm with Twalk_ (_, nf, _) -> N.eqb nf c_NOFID | _ -> false) then
                    set_verdict (Printf.sprintf "ORACLE C04.valid_fid_refused %s kind=%s fid=%s" where kind (string_of_n named))
                end;
                (match tm with
                 | Tattach_ (f, _, _, _, _) | Tauth_ (f, _, _, _) ->
                   if not (N.eqb f c_NOFID) && (match vget !v f with Some _ -> true | None -> false) then begin
                     if not (is_err && text_matches err_text c_Einuse_text c0.c_msize) || fwd_i then
                       set_verdict (Printf.sprintf "ORACLE C04.bind_valid_fid_not_refused %s kind=%s" where kind)
                   end
                 | Twalk_ (f, nf, _) ->
                   if not (N.eqb f nf) && (match vget !v nf with Some _ -> true | None -> false) then begin
                     if not is_err || fwd_i then
                       set_verdict (Printf.sprintf "ORACLE C04.bind_valid_fid_not_refused %s kind=%s" where kind)
                   end
                 | _ -> ());
                (* C04: user binding seen by the implementation *)
                List.iter (function
                    | IFwd (f, u, _) when not (is_tattach tm) ->
                      (match vget !v f with
                       | Some u' when N.eqb u u' -> ()
                       | _ -> set_verdict (Printf.sprintf "ORACLE C04.user_binding %s kind=%s" where kind))
                    | _ -> ()) ev;
                (* C04: destroy exactly once, no later than the invalidating reply *)
                let v' = spec_step !v tm rm in
                let keys = List.sort_uniq compare
                    (List.map (fun (k, _) -> int_of_n k) (!v @ v') @
                     List.concat (List.map (function IDestroy k -> [int_of_n k] | _ -> []) ev)) in
                List.iter (fun ki ->
                    let k = n_of_int ki in
                    let before = (match vget !v k with Some _ -> true | None -> false) in
                    let after = (match vget v' k with Some _ -> true | None -> false) in
                    let cd = count_destroy_i k ev in
                    if cd > 1 then set_verdict (Printf.sprintf "ORACLE C04.destroyed_twice %s kind=%s fid=%d" where kind ki)
                    else if before && not after && cd <> 1 then
                      set_verdict (Printf.sprintf "ORACLE C04.invalidated_not_destroyed %s kind=%s fid=%d" where kind ki)
                    else if after && cd <> 0 then
                      set_verdict (Printf.sprintf "ORACLE C04.valid_fid_destroyed %s kind=%s fid=%d" where kind ki)) keys;
                (* C05 *)
                let want_fwd = fid_ok c0 tm && rules_ok cfg c0 tm sc in
                if fwd_i <> want_fwd then
                  set_verdict (Printf.sprintf "ORACLE C05.forward_iff_rules %s kind=%s forwarded=%b rules=%b" where kind fwd_i want_fwd);
                (* the same rules on the state the protocol HISTORY determines (fid set, open state, type bits kept from
                   the requests and the implementation's replies alone - nothing taken from the model's fid records) *)
                let ca = { c_msize = c0.c_msize; c_dotu = c0.c_dotu;
                           c_fids = List.map (fun (k, u) ->
                               let oc = match vget !ov k with Some x -> x | None -> N0 in
                               let ty = match vget !tv k with Some x -> x | None -> N0 in
                               let opened = not (N.eqb oc N0) in
                               (k, { f_ref = Zpos XH; f_opened = opened; f_omode = (if opened then N.sub oc (n_of_int 1) else N0);
                                     f_type = ty; f_user = u; f_diroff = N0 })) !v } in
                let want_h = fid_ok ca tm && rules_ok cfg ca tm sc in
                if fwd_i <> want_h then
                  set_verdict (Printf.sprintf "ORACLE C05.forwarding_differs_from_the_rules_on_the_history_state %s kind=%s forwarded=%b rules=%b" where kind fwd_i want_h);
                v := v';
                ov := ospec_step !ov tm rm;
                tv := tspec_step !tv tm rm;
                if List.length (List.filter is_fwd_i ev) > 1 then
                  set_verdict (Printf.sprintf "ORACLE C05.forwarded_twice %s kind=%s" where kind);
                if not fwd_i && not is_err then
                  (match tm with Tversion_ _ | Tflush_ _ -> ()
                               | _ -> set_verdict (Printf.sprintf "ORACLE C05.refused_without_error %s kind=%s" where kind));
                List.iter (function
                    | IFwd (f, _, m') ->
                      if not (msg_eq m' tm) || not (N.eqb f (tfid tm)) then
                        set_verdict (Printf.sprintf "ORACLE C05.forward_not_faithful %s kind=%s" where kind)
                    | _ -> ()) ev;
                if auth && is_tattach tm && List.exists (function IFwd _ -> true | _ -> false) ev then begin
                  let rec before_fwd = function
                    | IAuthCheck _ :: _ -> true | IFwd _ :: _ -> false | _ :: r -> before_fwd r | [] -> false in
                  if ac <> None || not (before_fwd ev) then
                    set_verdict (Printf.sprintf "ORACLE C05.auth_gate %s" where)
                end
              | _ -> set_verdict (Printf.sprintf "ORACLE C12.reply_not_decodable_in_negotiated_dialect %s kind=%s" where kind));
             (* ---- correspondence with the model ---- *)
             if !verdict = "OK" || true then begin
               let want = spec_encode c1.c_dotu tag mr in
               if not (beq want rb) then begin
                 diffed := true;
                 set_verdict (Printf.sprintf "DIFF reply %s kind=%s model=%s impl=%s" where kind (hex_of_bytes want) (hex_of_bytes rb))
               end else if not (List.length mev = List.length ev && List.for_all2 event_eq mev ev) then begin
                 diffed := true;
                 set_verdict (Printf.sprintf "DIFF events %s kind=%s model=[%s] impl=[%s]" where kind
                                (String.concat ";" (List.map mev_str mev)) (String.concat ";" (List.map ev_str ev)))
               end
             end);
          c := c1
        | _ ->
          (* undecodable request: the connection is dropped *)
          dead := true;
          (match r with Some _ -> set_verdict ("ORACLE C12.undecodable_frame_answered " ^ where) | None -> ())
    end
  done;
  expect t "CLOSE";
  let cev = read_events t in
  (* C11/C04: at disconnect every still-valid fid is destroyed exactly once, ConnClosed once *)
  if not !diffed then begin
    let nclosed = List.length (List.filter (function IClosed -> true | _ -> false) cev) in
    if nclosed <> 1 then set_verdict (Printf.sprintf "ORACLE C11.conn_closed_count=%d" nclosed);
    List.iter (fun (k, _) ->
        if count_destroy_i k cev <> 1 then
          set_verdict (Printf.sprintf "ORACLE C11.fid_not_destroyed_once_at_close fid=%s count=%d" (string_of_n k) (count_destroy_i k cev))) !v;
    List.iter (function
        | IDestroy k -> if vget !v k = None then set_verdict ("ORACLE C11.destroy_of_invalid_fid_at_close fid=" ^ string_of_n k)
        | _ -> ()) cev
  end;
  !verdict
