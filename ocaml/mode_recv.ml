(* C13: receive loops under segmentation. Server lines:
   RS <msize> <dotu> <streamhex> SEG <k> <len>*k ; N <n> { <tag> <type> <framemd5> <atop> <atend> }*n ; W <hex> ; ST <open|closed> *)
open Model
open Conv

let refs : (string, string * string * string) Hashtbl.t = Hashtbl.create 64

let md5_8 (l : n list) : string =
  let b = Bytes.create (List.length l) in
  List.iteri (fun i x -> Bytes.set b i (Char.chr (int_of_n x))) l;
  String.sub (Digest.to_hex (Digest.bytes b)) 0 8

let rec split_at k l = if k <= 0 then ([], l) else match l with [] -> ([], []) | x :: r -> let (a, b) = split_at (k - 1) r in (x :: a, b)

let check_rs (t : toks) : string =
  let msize = next_n t in let dotu = next_bool t in
  let shex = next t in
  let stream = bytes_of_hex shex in
  expect t "SEG";
  let k = next_int t in
  let lens = repeat_read k (fun () -> next_int t) in
  expect t ";"; expect t "N";
  let n = next_int t in
  let recs = repeat_read n (fun () ->
      let tag = next_int t in let ty = next_int t in let fm = next t in let a = next t in let e = next t in (tag, ty, fm, a, e)) in
  expect t ";"; expect t "W"; let w = next t in
  expect t ";"; expect t "ST"; let st = next t in
  let nstr = String.concat " " (List.map (fun (tag, ty, fm, a, _) -> Printf.sprintf "%d:%d:%s:%s" tag ty fm a) recs) in
  let key = Printf.sprintf "%s/%b/%s" (string_of_n msize) dotu shex in
  let where = Printf.sprintf "msize=%s nseg=%d streamlen=%d" (string_of_n msize) k (List.length stream) in
  (* oracle 1: payloads not disturbed by later bytes *)
  let disturbed = List.exists (fun (_, ty, _, a, e) -> ty = 118 && a <> e) recs in
  if disturbed then "ORACLE C13.payload_disturbed_by_later_bytes " ^ where
  else if st = "stalled" then "ORACLE C13.server_stopped_serving_a_valid_stream " ^ where
  else begin
    (* oracle 2: same behaviour as the reference segmentation of this stream *)
    let o2 =
      match Hashtbl.find_opt refs key with
      | None -> Hashtbl.replace refs key (nstr, w, st); "OK"
      | Some (n0, w0, st0) ->
        if n0 <> nstr then "ORACLE C13.requests_differ_between_segmentations " ^ where
        else if w0 <> w then "ORACLE C13.replies_differ_between_segmentations " ^ where
        else if st0 <> st then "ORACLE C13.close_differs_between_segmentations " ^ where
        else "OK" in
    if o2 <> "OK" then o2
    else begin
      (* correspondence: the model's loop on the same segments *)
      let rec mksegs lens rest = match lens with
        | [] -> [] | l :: r -> let (a, b) = split_at l rest in a :: mksegs r b in
      let segs = mksegs lens stream in
      let (s, items) = srv_run true { p_msize = msize; p_dotu = dotu } segs in
      let mitems = List.sort compare
          (List.map (fun it -> (int_of_n it.i_tag, int_of_n (typ it.i_msg), md5_8 it.i_frame)) items) in
      let iitems = List.sort compare (List.map (fun (tag, ty, fm, _, _) -> (tag, ty, fm)) recs) in
      let mclosed = (match s.r_st with ClosedBad -> true | _ -> false) in
      if (match s.r_st with ReadEmpty -> true | _ -> false) then "DIFF model-read-empty " ^ where
      else if mitems <> iitems then
        Printf.sprintf "DIFF delivered-frames model=%d impl=%d %s" (List.length mitems) (List.length iitems) where
      else if mclosed <> (st = "closed") then Printf.sprintf "DIFF closed model=%b impl=%s %s" mclosed st where
      else "OK"
    end
  end

(* client lines:
   RC <msize> <dotu> <streamhex> SEG <k> <len>*k ; N <n> { <tag> <type> <framemd5> }*n ; OWN <b> ; ST <open|closed|stalled> *)
let crefs : (string, string * string) Hashtbl.t = Hashtbl.create 64

let check_rc (t : toks) : string =
  let msize = next_n t in let dotu = next_bool t in
  let shex = next t in
  let stream = bytes_of_hex shex in
  expect t "SEG";
  let k = next_int t in
  let lens = repeat_read k (fun () -> next_int t) in
  expect t ";"; expect t "N";
  let n = next_int t in
  let recs = repeat_read n (fun () -> let tag = next_int t in let ty = next_int t in let fm = next t in (tag, ty, fm)) in
  expect t ";"; expect t "OWN"; let own = next_bool t in
  expect t ";"; expect t "ST"; let st = next t in
  let where = Printf.sprintf "msize=%s nseg=%d streamlen=%d delivered=%d" (string_of_n msize) k (List.length stream) n in
  let nstr = String.concat " " (List.map (fun (tag, ty, fm) -> Printf.sprintf "%d:%d:%s" tag ty fm) recs) in
  let key = Printf.sprintf "%s/%b/%s" (string_of_n msize) dotu shex in
  if not own then "ORACLE C09.call_got_another_calls_reply|C13.client_outcome_depends_on_segmentation " ^ where
  else if st = "stalled" then "ORACLE C13.client_stopped_reading_a_valid_stream|C10.call_never_returned " ^ where
  else begin
    let o2 =
      match Hashtbl.find_opt crefs key with
      | None -> Hashtbl.replace crefs key (nstr, st); "OK"
      | Some (n0, st0) ->
        if n0 <> nstr then "ORACLE C13.client_outcome_depends_on_segmentation deliveries-differ " ^ where
        else if st0 <> st then "ORACLE C13.client_outcome_depends_on_segmentation close-differs " ^ where
        else "OK" in
    if o2 <> "OK" then o2
    else begin
      let rec mksegs lens rest = match lens with
        | [] -> [] | l :: r -> let (a, b) = split_at l rest in a :: mksegs r b in
      let segs = mksegs lens stream in
      let (s, items) = clnt_run { p_msize = msize; p_dotu = dotu } segs in
      let mitems = List.sort compare
          (List.map (fun it -> (int_of_n it.i_tag, int_of_n (typ it.i_msg), md5_8 it.i_frame)) items) in
      let iitems = List.sort compare recs in
      let mclosed = (match s.r_st with ClosedBad -> true | _ -> false) in
      if (match s.r_st with ReadEmpty -> true | _ -> false) then "DIFF model-read-empty " ^ where
      else if mitems <> iitems then
        Printf.sprintf "DIFF client delivered-frames model=%d impl=%d %s" (List.length mitems) (List.length iitems) where
      else if mclosed <> (st = "closed") then Printf.sprintf "DIFF client closed model=%b impl=%s %s" mclosed st where
      else "OK"
    end
  end

let check_line (l : string) : string =
  let t = toks_of_line l in
  match next t with
  | "RS" -> check_rs t
  | "RC" -> check_rc t
  | x -> failwith ("mode recv: bad record " ^ x)
