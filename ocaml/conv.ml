(* Conversions between the harness' text tokens and the extracted datatypes.
   Hand-written, trusted. Numbers are decimal unless prefixed by 0x; N values are
   built with the extracted N.add/N.mul so no OCaml int ever holds protocol data
   wider than 62 bits. *)
open Model

let rec nat_of_int (i : int) : nat = if i <= 0 then O else S (nat_of_int (i - 1))
let rec int_of_nat (n : nat) : int = match n with O -> 0 | S m -> 1 + int_of_nat m

let rec pos_of_int (i : int) : positive =
  if i <= 1 then XH
  else if i land 1 = 0 then XO (pos_of_int (i lsr 1))
  else XI (pos_of_int (i lsr 1))

let n_of_int (i : int) : n = if i <= 0 then N0 else Npos (pos_of_int i)

let rec int_of_pos (p : positive) : int =
  match p with XH -> 1 | XO q -> 2 * int_of_pos q | XI q -> 2 * int_of_pos q + 1

(* only for values known to fit (lengths, ids, bytes) *)
let int_of_n (x : n) : int = match x with N0 -> 0 | Npos p -> int_of_pos p

let n10 = n_of_int 10
let n16 = n_of_int 16

let n_of_string (s : string) : n =
  let len = String.length s in
  if len > 2 && s.[0] = '0' && (s.[1] = 'x' || s.[1] = 'X') then begin
    let acc = ref N0 in
    for i = 2 to len - 1 do
      let c = s.[i] in
      let d =
        if c >= '0' && c <= '9' then Char.code c - 48
        else if c >= 'a' && c <= 'f' then Char.code c - 87
        else if c >= 'A' && c <= 'F' then Char.code c - 55
        else failwith ("bad hex number " ^ s) in
      acc := N.add (N.mul !acc n16) (n_of_int d)
    done; !acc
  end else begin
    let acc = ref N0 in
    for i = 0 to len - 1 do
      let c = s.[i] in
      if c < '0' || c > '9' then failwith ("bad number " ^ s);
      acc := N.add (N.mul !acc n10) (n_of_int (Char.code c - 48))
    done; !acc
  end

(* decimal printing of an arbitrary N *)
let string_of_n (x : n) : string =
  match x with
  | N0 -> "0"
  | _ ->
    let b = Buffer.create 20 in
    let rec go x acc =
      match x with
      | N0 -> acc
      | _ -> let q = N.div x n10 and r = N.modulo x n10 in
        go q (Char.chr (48 + int_of_n r) :: acc) in
    List.iter (Buffer.add_char b) (go x []); Buffer.contents b

(* bytes: lowercase hex string, "-" for empty *)
let bytes_of_hex (s : string) : n list =
  if s = "-" then [] else begin
    let len = String.length s in
    if len land 1 = 1 then failwith ("odd hex " ^ s);
    let hv c =
      if c >= '0' && c <= '9' then Char.code c - 48
      else if c >= 'a' && c <= 'f' then Char.code c - 87
      else failwith ("bad hex " ^ s) in
    let rec go i acc =
      if i < 0 then acc
      else go (i - 2) (n_of_int (hv s.[i] * 16 + hv s.[i + 1]) :: acc) in
    go (len - 2) []
  end

let hex_of_bytes (l : n list) : string =
  if l = [] then "-" else begin
    let b = Buffer.create (2 * List.length l) in
    List.iter (fun x -> Buffer.add_string b (Printf.sprintf "%02x" (int_of_n x))) l;
    Buffer.contents b
  end

(* token stream over one line *)
type toks = { mutable rest : string list; line : string }

let toks_of_line (l : string) : toks =
  { rest = List.filter (fun s -> s <> "") (String.split_on_char ' ' l); line = l }

let next (t : toks) : string =
  match t.rest with
  | [] -> failwith ("unexpected end of line: " ^ t.line)
  | x :: r -> t.rest <- r; x

let peek (t : toks) : string option = match t.rest with [] -> None | x :: _ -> Some x
let next_int t = int_of_string (next t)
let next_n t = n_of_string (next t)
let next_bytes t = bytes_of_hex (next t)
let next_bool t = match next t with "1" | "true" | "T" -> true | _ -> false
let expect t s = let x = next t in if x <> s then failwith ("expected " ^ s ^ " got " ^ x ^ " in: " ^ t.line)

let rec repeat_read (k : int) (f : unit -> 'a) : 'a list =
  if k <= 0 then [] else let x = f () in x :: repeat_read (k - 1) f
