(* C20: ring logger. Input lines:
   SEQ <cap> <nops> { L <id> <owner> <type> | F <ow|-> <ty> <n> <id>*n }
   CONC <cap> <nprod> { P <n> {<id> <owner> <type>}*n } <nflt> { F <ow|-> <ty> <n> <id>*n } FINAL <n> <id>*n *)
open Model
open Conv

let read_ow t = match next t with "-" -> None | s -> Some (n_of_string s)

let lookup (logged : entry list) (id : n) : entry option =
  List.find_opt (fun e -> N.eqb e.e_id id) logged

let ids_str l = String.concat "," (List.map (fun e -> string_of_n e.e_id) l)

let check_seq (t : toks) : string =
  let cap = next_int t in
  let nops = next_int t in
  let ops = ref [] and obs = ref [] in
  let extra = ref "" in
  for _ = 1 to nops do
    match next t with
    | "L" ->
      let id = next_n t in let ow = next_n t in let ty = next_n t in
      ops := LLog { e_id = id; e_owner = ow; e_type = ty } :: !ops
    | "F" ->
      let ow = read_ow t in let ty = next_n t in
      let n = next_int t in
      let ids = repeat_read n (fun () -> next_n t) in
      ops := LFilter (ow, ty) :: !ops; obs := (ow, ty, ids) :: !obs
    | "K" -> if next_int t = 0 then extra := "ORACLE C20.filter_result_changed_by_a_later_call"
    | "H" -> extra := "ORACLE C20.filter_never_returned"
    | x -> failwith ("bad op " ^ x)
  done;
  let ops = List.rev !ops and obs = List.rev !obs in
  let model = run_ops (ring_init (nat_of_int cap)) ops in
  (* oracle on the implementation's results *)
  let logged = ref [] and oi = ref obs and verdict = ref "OK" in
  List.iter (fun op ->
      match op with
      | LLog e -> logged := !logged @ [e]
      | LFilter (ow, ty) ->
        (match !oi with
         | (_, _, ids) :: r ->
           oi := r;
           let res = List.map (fun id -> match lookup !logged id with
               | Some e -> e
               | None -> { e_id = id; e_owner = n_of_int 999999; e_type = n_of_int 999999 }) ids in
           if !verdict = "OK" && not (filter_result_ok (nat_of_int cap) !logged ow ty res) then
             verdict := Printf.sprintf "ORACLE filter_result_ok impl=[%s] spec=[%s] logged=%d"
                 (String.concat "," (List.map string_of_n ids))
                 (ids_str (spec_filter (nat_of_int cap) !logged ow ty)) (List.length !logged)
         | [] -> failwith "obs underflow")) ops;
  if !verdict <> "OK" then !verdict
  else if !extra <> "" then !extra
  else begin
    (* correspondence: model results vs implementation results *)
    let rec cmp ms os k =
      match ms, os with
      | [], [] -> "OK"
      | Ok l :: ms', (_, _, ids) :: os' ->
        if List.length l = List.length ids && List.for_all2 (fun e id -> N.eqb e.e_id id) l ids
        then cmp ms' os' (k + 1)
        else Printf.sprintf "DIFF filter#%d model=[%s] impl=[%s]" k (ids_str l)
            (String.concat "," (List.map string_of_n ids))
      | _ :: _, _ :: _ -> Printf.sprintf "DIFF filter#%d model=panic-or-fuel" k
      | _ -> "DIFF result-count" in
    cmp model obs 0
  end

let check_conc (t : toks) : string =
  let cap = next_int t in
  let nprod = next_int t in
  let prods = repeat_read nprod (fun () ->
      expect t "P"; let n = next_int t in
      repeat_read n (fun () ->
          let id = next_n t in let ow = next_n t in let ty = next_n t in
          { e_id = id; e_owner = ow; e_type = ty })) in
  let all = List.concat prods in
  let mk ids = List.map (fun id -> match lookup all id with
      | Some e -> e
      | None -> { e_id = id; e_owner = n_of_int 999999; e_type = n_of_int 999999 }) ids in
  let nflt = next_int t in
  let verdict = ref "OK" in
  for k = 1 to nflt do
    expect t "F";
    let ow = read_ow t in let ty = next_n t in
    let n = next_int t in
    let ids = repeat_read n (fun () -> next_n t) in
    if !verdict = "OK" && not (conc_result_ok (nat_of_int cap) prods ow ty (mk ids)) then
      verdict := Printf.sprintf "ORACLE conc_result_ok filter#%d impl=[%s]" k
          (String.concat "," (List.map string_of_n ids))
  done;
  expect t "FINAL";
  let n = next_int t in
  let ids = repeat_read n (fun () -> next_n t) in
  if !verdict = "OK" && not (conc_final_ok (nat_of_int cap) prods (mk ids)) then
    verdict := Printf.sprintf "ORACLE conc_final_ok impl=[%s]" (String.concat "," (List.map string_of_n ids));
  !verdict

let check_line (l : string) : string =
  let t = toks_of_line l in
  match next t with
  | "SEQ" -> check_seq t
  | "CONC" -> check_conc t
  | x -> failwith ("mode log: bad record " ^ x)
