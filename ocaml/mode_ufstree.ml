(* C16 / C17 / C18: Ufs on scratch trees (harness/ufstree.go). *)
open Model
open Conv
open Mode_codec

let comps_of_hex h = split_slash (bytes_of_hex h)
let rec comps_eq a b = match a, b with
  | [], [] -> true | x :: a', y :: b' -> beq x y && comps_eq a' b' | _ -> false
let rec is_prefix a b = match a, b with
  | [], _ -> true | x :: a', y :: b' -> beq x y && is_prefix a' b' | _ -> false
let str_of_comps cs = "/" ^ String.concat "/" (List.map (fun c -> String.concat "" (List.map (fun x -> String.make 1 (Char.chr (int_of_n x))) c)) cs)

let check_uc (t : toks) : string =
  let root = comps_of_hex (next t) in
  expect t "EX";
  let n = next_int t in
  let ex = ref (repeat_read n (fun () -> comps_of_hex (next t))) in
  let links = ref [] in
  expect t "OPS";
  let k = next_int t in
  let verdict = ref "OK" in
  let bad s = if !verdict = "OK" then verdict := s in
  let exists_ p = let c = clean p in List.exists (comps_eq c) !ex in
  let through_link p = List.exists (fun l -> is_prefix l p && List.length l < List.length p) !links in
  let confined what p = if not (is_prefix root p) then bad (Printf.sprintf "ORACLE C18.fid_outside_root op=%s path=%s" what (str_of_comps p)) in
  for _ = 1 to k do
    match next t with
    | "A" ->
      let aname = next_bytes t in expect t "=>";
      let r = next t in
      let mp = attach_path root aname in
      if r = "ERR" then begin
        if exists_ mp then bad ("DIFF attach model-expects-success aname=" ^ hex_of_bytes aname)
      end else begin
        let p = comps_of_hex r in
        confined "attach" p;
        if not (comps_eq p mp) then bad (Printf.sprintf "DIFF attach path model=%s impl=%s" (str_of_comps mp) (str_of_comps p))
      end
    | "W" ->
      let from = comps_of_hex (next t) in
      let isdir = next_bool t in
      let nn = next_int t in
      let names = repeat_read nn (fun () -> next_bytes t) in
      expect t "=>";
      let r = next t in let np = next t in
      if not isdir && nn > 0 then begin
        (* the framework refuses to walk by name from a non-directory *)
        if r <> "ERR" then bad "ORACLE C05.walk_from_non_directory_forwarded"
      end else begin
        if np <> "-" then confined "walk" (comps_of_hex np);
        let (mres, touched) = ufs_walk exists_ root from names in
        List.iter (fun p -> if not (is_prefix root (clean p)) then bad ("ORACLE(model) C18.touched_outside " ^ str_of_comps p)) touched;
        if not (List.exists through_link (List.map clean touched)) then begin
          (match mres, r with
           | WErr, "ERR" -> ()
           | WOk (mn, commit), _ when r <> "ERR" ->
             if int_of_nat mn <> int_of_string r then bad (Printf.sprintf "DIFF walk nqids model=%d impl=%s from=%s" (int_of_nat mn) r (str_of_comps from))
             else (match commit, np with
                 | None, "-" -> ()
                 | Some q, h when h <> "-" ->
                   if not (comps_eq (clean q) (comps_of_hex h)) then bad (Printf.sprintf "DIFF walk newpath model=%s impl=%s" (str_of_comps (clean q)) (str_of_comps (comps_of_hex h)))
                 | _ -> bad "DIFF walk commit")
           | _ -> bad (Printf.sprintf "DIFF walk outcome impl=%s from=%s n=%d" r (str_of_comps from) nn))
        end
      end
    | "C" ->
      let dir = comps_of_hex (next t) in
      let name = next_bytes t in
      let sym = (match next t with "S" -> Some (next_bytes t) | _ -> None) in
      expect t "=>";
      let r = next t in
      let mp = create_path dir name in
      let allowed = (match mp, sym with
          | None, _ -> false
          | Some _, Some e -> symlink_ok e
          | Some _, None -> true) in
      if r = "ERR" then ()
      else begin
        let p = comps_of_hex r in
        confined "create" p;
        if not allowed then bad (Printf.sprintf "DIFF create model-refuses name=%s" (hex_of_bytes name))
        else (match mp with
            | Some q -> if not (comps_eq (clean q) p) then bad "DIFF create path"
            | None -> ());
        ex := p :: !ex;
        (match sym with
         | Some e ->
           links := p :: !links;
           (* an accepted link stays inside the directory that holds it *)
           if not (is_prefix (clean dir) (symlink_resolves dir e)) then bad "ORACLE C18.symlink_leaves_its_directory"
         | None -> ())
      end
    | "R" ->
      let from = comps_of_hex (next t) in
      let name = next_bytes t in
      expect t "=>";
      let r = next t in
      let md = rename_dest root from name in
      if r = "ERR" then ()
      else begin
        let p = comps_of_hex r in
        confined "rename" p;
        (match md with
         | None -> bad (Printf.sprintf "DIFF rename model-refuses name=%s" (hex_of_bytes name))
         | Some d -> if not (comps_eq d p) then bad (Printf.sprintf "DIFF rename dest model=%s impl=%s" (str_of_comps d) (str_of_comps p)));
        (* the renamed object (and what is below it) moves *)
        ex := List.map (fun e -> if is_prefix from e then
                           p @ (let rec drop k l = if k = 0 then l else match l with [] -> [] | _ :: r -> drop (k - 1) r in drop (List.length from) e)
                         else e) !ex
      end
    | x -> failwith ("bad UC op " ^ x)
  done;
  expect t ";"; expect t "SAFE"; let safe = next_bool t in
  expect t ";"; expect t "OUTSIDEQID"; let oq = next_bool t in
  if not safe then "ORACLE C18.something_outside_the_root_changed"
  else if oq then "ORACLE C18.qid_of_an_outside_object_returned"
  else !verdict

let check_us (t : toks) : string =
  let dotu = next_bool t in
  let kind = next t in
  let perm = next_n t in let size = next_n t in let mtime = next_n t in let ino = next_n t in
  let _name = next t in
  expect t "=>";
  match next t with
  | "ERR" -> "ORACLE C16.stat_failed_for_existing_object"
  | qt ->
    let qtype = n_of_string qt in
    let qpath = next_n t in let mode = next_n t in let length = next_n t in let mt = next_n t in
    let _nm = next t in
    expect t "MATCH";
    if not (next_bool t) then Printf.sprintf "ORACLE C16.stat_differs_from_lstat kind=%s dotu=%b" kind dotu
    else begin
      let f = { fi_dir = (kind = "d"); fi_symlink = (kind = "l"); fi_socket = false; fi_pipe = false; fi_device = false;
                fi_setuid = false; fi_setgid = false; fi_perm = perm; fi_size = size; fi_mtime_s = mtime;
                fi_mtime_ms = N0; fi_ino = ino } in
      if not (N.eqb (dir2qidtype f) qtype) then "DIFF stat qid type"
      else if not (N.eqb (dir2npmode f dotu) mode) then Printf.sprintf "DIFF stat mode model=%s impl=%s" (string_of_n (dir2npmode f dotu)) (string_of_n mode)
      else if not (N.eqb (stat_length f) length) then "DIFF stat length"
      else if not (N.eqb (stat_mtime f) mt) then "DIFF stat mtime"
      else if not (N.eqb ino qpath) then "DIFF stat qid path"
      else "OK"
    end

let check_um (l : string) (t : toks) : string =
  let dotu = next_bool t in
  let n = next_int t in
  let verdict = ref "OK" in
  let bad s = if !verdict = "OK" then verdict := s in
  for i = 1 to n do
    let op = next t in let detail = next t in
    expect t "=>";
    let r9 = next t in
    let code9 = if r9 = "ERR" then next_int t else 0 in
    expect t "TWIN";
    let rt = next t in
    let codet = if rt = "ERR" then next_int t else 0 in
    expect t "SAME";
    let same = next_bool t in
    let where = Printf.sprintf "step=%d op=%s detail=%s dotu=%b" i op detail dotu in
    if not same then bad ("ORACLE C17.tree_differs_from_posix_twin " ^ where)
    else if (r9 = "ERR") <> (rt = "ERR") then bad (Printf.sprintf "ORACLE C17.outcome_differs_from_posix 9p=%s twin=%s %s" r9 rt where)
    else if dotu && r9 = "ERR" && (op = "create" || op = "mkdir" || op = "remove" || op = "symlink") && code9 <> codet
            && code9 <> 2 (* a failing walk to the parent is reported by the client helper as ENOENT *) then
      bad (Printf.sprintf "ORACLE C17.error_number_differs 9p=%d posix=%d %s" code9 codet where)
  done;
  expect t ";"; expect t "FINALSAME";
  if not (next_bool t) then bad "ORACLE C17.final_trees_differ";
  ignore l;
  !verdict

let check_line (l : string) : string =
  let t = toks_of_line l in
  match next t with
  | "UC" -> check_uc t
  | "US" -> check_us t
  | "UW" -> let _ = next t in let _ = next t in expect t "=>"; expect t "OK";
    if next_bool t then "OK" else "ORACLE C16.walk_differs_from_lstat"
  | "UR" -> let rel = next t in expect t "=>"; expect t "OK";
    if next_bool t then "OK" else "ORACLE C16.stat_of_a_kept_fid_does_not_follow_the_file path=" ^ rel
  | "UM" -> check_um l t
  | x -> failwith ("mode ufstree: bad record " ^ x)
