(* C09 / C10: the real client against a scripted peer (harness/clnt.go).
   CL <n> {<idx> <kind>}*n SEG <k> CUT <c> END <end> DELIVERED <d> ; RES {<class>:<own>}*n ; LATE <class> ; DISTINCT <b> ; HANG <b>
   SOAK <n> OK <b> MAXTAG <t> DISTINCTTAGS <d> SECS <s> *)
open Model
open Conv

let class_of_result = function
  | Some (ROk _) -> "ok" | Some (RRerr _) -> "rerr" | Some (RInvalid _) -> "invalid"
  | Some RConnErr -> "connerr" | None -> "none"

let check_cl (t : toks) : string =
  let n = next_int t in
  let order = repeat_read n (fun () -> let i = next_int t in let k = next t in (i, k)) in
  expect t "SEG"; let nseg = next_int t in
  expect t "CUT"; let cut = next_int t in
  expect t "END"; let endk = next t in
  expect t "DELIVERED"; let delivered = next_int t in
  expect t ";"; expect t "RES";
  let res = repeat_read n (fun () ->
      let s = next t in
      match String.split_on_char ':' s with
      | [c; o] -> (c, o = "1") | _ -> failwith ("bad res " ^ s)) in
  expect t ";"; expect t "LATE"; let late = next t in
  expect t ";"; expect t "DISTINCT"; let distinct = next_bool t in
  expect t ";"; expect t "HANG"; let hang = next_bool t in
  expect t ";"; expect t "TAGSBACK"; let tagsback = next_bool t in
  expect t ";"; expect t "DISTURBED"; let disturbed = next_bool t in
  let where = Printf.sprintf "n=%d nseg=%d cut=%d end=%s delivered=%d" n nseg cut endk delivered in
  let kind_class = function "M" | "L" | "K" -> "ok" | "E" -> "rerr" | _ -> "invalid" in
  (* expected class per call: replies delivered completely before the failure count *)
  let expected = Array.make n "connerr" in
  List.iteri (fun pos (idx, k) -> if pos < delivered && idx < n then expected.(idx) <- kind_class k) order;
  let failing = endk <> "none" in
  (* ---------------- oracles ---------------- *)
  let verdict = ref "OK" in
  (* with a complete reply stream cut into several reads, any wrong outcome also means that the
     behaviour depends on the segmentation (C13) *)
  let bad s =
    if !verdict = "OK" then
      verdict :=
        (if nseg > 1 && not failing then
           (match String.index_opt s ' ' with
            | Some i0 -> (match String.index_from_opt s (i0 + 1) ' ' with
                          | Some i1 -> String.sub s 0 i1 ^ "|C13.client_outcome_depends_on_segmentation" ^ String.sub s i1 (String.length s - i1)
                          | None -> s ^ "|C13.client_outcome_depends_on_segmentation")
            | None -> s)
         else s) in
  (* without any failure of the connection a call that never returns also means: it did not get its reply (C09), and -
     when the replies came in another order than the calls - one call was held up by another (C08) *)
  if hang then bad ((if failing then "ORACLE C10.call_never_returned " else "ORACLE C10.call_never_returned|C09.call_never_got_its_reply|C08.call_held_up_by_a_call_with_another_tag ") ^ where);
  (* after a failure every refused call must still give its tag back: 65535 leaked tags later ReqAlloc blocks for ever (C10) *)
  if not tagsback then bad ((if failing then "ORACLE C09.tags_not_recycled|C10.refused_or_failed_call_leaks_its_tag " else "ORACLE C09.tags_not_recycled ") ^ where);
  if disturbed then bad ("ORACLE C13.client_reply_disturbed_by_later_bytes|C09.call_holds_another_calls_data " ^ where);
  if not distinct then bad ("ORACLE C09.outstanding_tags_not_distinct " ^ where);
  List.iteri (fun i (c, own) ->
      if c = "hang" then bad ((if failing then "ORACLE C10.call_never_returned " else "ORACLE C10.call_never_returned|C09.call_never_got_its_reply|C08.call_held_up_by_a_call_with_another_tag ") ^ where)
      else begin
        if (c = "ok" || c = "rerr") && not own then
          bad (Printf.sprintf "ORACLE C09.call_got_another_calls_reply call=%d %s" i where);
        let e = expected.(i) in
        if failing then begin
          if e = "connerr" && (c = "ok") then bad (Printf.sprintf "ORACLE C10.success_without_complete_reply call=%d %s" i where)
          else if e <> "connerr" && c = "connerr" && endk <> "unmount" then
            bad (Printf.sprintf "ORACLE C10.complete_reply_not_delivered call=%d %s" i where)
          else if c <> e && not (endk = "unmount" && c = "connerr") then
            bad (Printf.sprintf "ORACLE C10.wrong_outcome call=%d got=%s want=%s %s" i c e where)
        end else if c <> e then
          bad (Printf.sprintf "ORACLE C09.wrong_outcome call=%d got=%s want=%s %s" i c e where)
      end) res;
  if failing && late <> "connerr" then bad (Printf.sprintf "ORACLE C10.later_call_not_refused late=%s %s" late where);
  if !verdict <> "OK" then !verdict
  else if endk = "unmount" then "OK"
  else begin
    (* ---------------- correspondence: canonical schedule through the model ---------------- *)
    let k = 70 in
    let nat = nat_of_int in
    let calls = List.concat (List.init n (fun i -> [LNewCall (false, None)])) in
    let prep = List.concat (List.init n (fun i -> [LAlloc (nat i); LLock (nat i); LHandoff (nat i)])) in
    let kd = function "M" | "L" | "K" -> KMatch | "E" -> KRerror | _ -> KOther in
    let deliv = List.concat (List.mapi (fun pos (idx, kk) ->
        if pos < delivered then [LRecvFrame (n_of_int idx, kd kk); LDeliver; LTake (nat idx)] else []) order) in
    let pending = List.filter (fun i -> expected.(i) = "connerr") (List.init n (fun i -> i)) in
    let fail =
      if not failing then []
      else (if endk = "unknowntag" then [LRecvFrame (n_of_int 0x7777, KMatch)] else [LFail])
           @ [LClose; LClose] @ List.concat (List.map (fun i -> [LDeliver; LTake (nat i)]) pending) @ [LClose] in
    let frees = List.init n (fun i -> LFree (nat i)) in
    let latel = if failing then [LNewCall (false, None); LAlloc (nat n); LLock (nat n); LFree (nat n)] else [] in
    let labels = calls @ prep @ deliv @ fail @ frees @ latel in
    match crun (cinit_n (nat k)) labels with
    | None -> "DIFF model-rejects-canonical-schedule " ^ where
    | Some s ->
      let mres = List.map (fun c -> class_of_result c.c_res) s.callers in
      let ires = List.map fst res @ (if failing then [late] else []) in
      if mres <> ires then Printf.sprintf "DIFF results model=[%s] impl=[%s] %s" (String.concat "," mres) (String.concat "," ires) where
      else if List.length s.pool + List.length s.cache <> k then "DIFF tags-not-conserved " ^ where
      else "OK"
  end

let check_line (l : string) : string =
  let t = toks_of_line l in
  match next t with
  | "CL" -> check_cl t
  | "CI" ->
    let n = next_int t in let script = next t in
    expect t ";"; expect t "RES";
    let res = repeat_read n (fun () -> next t) in
    expect t ";"; expect t "HANG"; let hang = next_bool t in
    expect t ";"; expect t "TAGSBACK"; let tb = next_bool t in
    if hang then "ORACLE C09.interleaved_call_never_returned script=" ^ script
    else if List.exists (fun r -> r <> "ok:1") res then "ORACLE C09.interleaved_call_wrong_reply script=" ^ script ^ " res=" ^ String.concat "," res
    else if not tb then "ORACLE C09.tags_not_recycled script=" ^ script
    else "OK"
  | "CT" ->
    let n = next_int t in
    expect t "ORDER"; let order = next_bool t in
    expect t "PAIRED"; let paired = next_bool t in
    expect t "HANG"; let hang = next_bool t in
    if hang then Printf.sprintf "ORACLE C09.shared_tag_request_never_completed n=%d" n
    else if not order then Printf.sprintf "ORACLE C09.shared_tag_completions_out_of_order|C08.shared_tag_answers_delivered_out_of_order n=%d" n
    else if not paired then Printf.sprintf "ORACLE C09.shared_tag_reply_paired_with_wrong_request|C08.shared_tag_answers_delivered_out_of_order n=%d" n
    else "OK"
  | "CF" ->
    (* the Tag client when the connection fails: n requests, a of them answered before the failure *)
    let n = next_int t in let a = next_int t in
    expect t "FAILED"; let failed = next_int t in
    expect t "WRONG"; let wrong = next_bool t in
    expect t "HANG"; let hang = next_bool t in
    if hang then Printf.sprintf "ORACLE C10.tag_client_request_never_handed_back_after_connection_failure|C09.shared_tag_request_never_completed n=%d answered=%d" n a
    else if wrong then Printf.sprintf "ORACLE C10.tag_client_request_succeeds_without_reply_or_received_reply_lost n=%d answered=%d" n a
    else if failed <> n - a then Printf.sprintf "ORACLE C10.tag_client_failed_count n=%d answered=%d failed=%d" n a failed
    else "OK"
  | "SOAK" ->
    let n = next_int t in expect t "OK"; let ok = next_bool t in
    expect t "MAXTAG"; let _ = next_int t in expect t "DISTINCTTAGS"; let d = next_int t in
    if not ok then Printf.sprintf "ORACLE C09.soak_stalled_or_wrong_reply calls=%d" n
    else if d > 64 then Printf.sprintf "ORACLE C09.tags_not_recycled distinct=%d calls=%d" d n
    else "OK"
  | "CV" ->
    (* C12, client direction: Connect against a scripted Rversion, then one Write and one Read *)
    let cm = next_n t in let wantu = next_bool t in let sm = next_n t in let srvver = next_bytes t in
    let riounit = next_n t in let n = next_n t in
    expect t "=>";
    let tvm = next_n t in let tvver = next_bytes t in
    let msize = next_n t in let dotu = next_bool t in let maxframe = next_n t in let readcount = next_int t in
    expect t "CONNECT"; let okc = next_bool t in
    let where = Printf.sprintf "client_msize=%s want_u=%b server_msize=%s server_version=%s riounit=%s n=%s"
        (string_of_n cm) wantu (string_of_n sm) (String.concat "" (List.map (fun b -> String.make 1 (Char.chr (int_of_n b))) srvver)) (string_of_n riounit) (string_of_n n) in
    let (em, edu) = clnt_connect cm wantu sm srvver in
    let iou = open_iounit em riounit in
    let lim = if N.ltb cm sm then cm else sm in
    (match clnt_version_request cm wantu with
     | Tversion_ (m0, v0) when m0 = tvm && v0 = tvver ->
       if not okc then "ORACLE C12.client_connect_failed " ^ where
       else if msize <> lim then Printf.sprintf "ORACLE C12.client_msize_not_min got=%s %s" (string_of_n msize) where
       else if N.ltb lim maxframe then Printf.sprintf "ORACLE C12.client_frame_exceeds_negotiated_msize frame=%s %s" (string_of_n maxframe) where
       else if readcount >= 0 && N.ltb lim (rread_frame_len (n_of_int readcount)) then
         Printf.sprintf "ORACLE C12.client_asks_for_reply_above_negotiated_msize count=%d %s" readcount where
       else if dotu <> edu then Printf.sprintf "ORACLE C12.client_dialect_wrong got=%b %s" dotu where
       else if msize <> em then "DIFF client msize " ^ where
       else if maxframe <> twrite_frame_len iou n then
         Printf.sprintf "DIFF client Twrite frame impl=%s model=%s %s" (string_of_n maxframe) (string_of_n (twrite_frame_len iou n)) where
       else if readcount < 0 || n_of_int readcount <> tread_count iou n then
         Printf.sprintf "DIFF client Tread count impl=%d model=%s %s" readcount (string_of_n (tread_count iou n)) where
       else "OK"
     | _ -> "ORACLE C12.client_proposes_other_than_configured " ^ where)
  | x -> failwith ("mode clnt: bad record " ^ x)
