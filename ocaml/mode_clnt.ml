(* C09 / C10: the real client against a scripted peer (harness/clnt.go).
   CL <n> {<idx> <kind>}*n SEG <k> CUT <c> END <end> DELIVERED <d> ; RES {<class>:<own>}*n ; LATE <class> ; DISTINCT <b> ; HANG <b>
   SOAK <n> OK <b> MAXTAG <t> DISTINCTTAGS <d> SECS <s> *)
open Model
open Conv

let class_of_result = function
  | Some (ROk _) -> "ok" | Some (RRerr _) -> "rerr" | Some (RInvalid _) -> "invalid"
  | Some RConnErr -> "connerr" | None -> "none"

let check_cl (t : toks) : string =
  let n = next_int t in
  let order = repeat_read n (fun () -> let i = next_int t in let k = next t in (i, k)) in
  expect t "SEG"; let nseg = next_int t in
  expect t "CUT"; let cut = next_int t in
  expect t "END"; let endk = next t in
  expect t "DELIVERED"; let delivered = next_int t in
  expect t ";"; expect t "RES";
  let res = repeat_read n (fun () ->
      let s = next t in
      match String.split_on_char ':' s with
      | [c; o] -> (c, o = "1") | _ -> failwith ("bad res " ^ s)) in
  expect t ";"; expect t "LATE"; let late = next t in
  expect t ";"; expect t "DISTINCT"; let distinct = next_bool t in
  expect t ";"; expect t "HANG"; let hang = next_bool t in
  expect t ";"; expect t "TAGSBACK"; let tagsback = next_bool t in
  expect t ";"; expect t "DISTURBED"; let disturbed = next_bool t in
  let where = Printf.sprintf "n=%d nseg=%d cut=%d end=%s delivered=%d" n nseg cut endk delivered in
  let kind_class = function "M" | "L" | "K" -> "ok" | "E" -> "rerr" | _ -> "invalid" in
  (* expected class per call: replies delivered completely before the failure count *)
  let expected = Array.make n "connerr" in
  List.iteri (fun pos (idx, k) -> if pos < delivered && idx < n then expected.(idx) <- kind_class k) order;
  let failing = endk <> "none" in
  (* ---------------- oracles ---------------- *)
  let verdict = ref "OK" in
  (* with a complete reply stream cut into several reads, any wrong outcome also means that the
     behaviour depends on the segmentation (C13) *)
  let bad s =
    if !verdict = "OK" then
      verdict :=
        (if nseg > 1 && not failing then
           (match String.index_opt s ' ' with
            | Some i0 -> (match String.index_from_opt s (i0 + 1) ' ' with
                          | Some i1 -> String.sub s 0 i1 ^ "|C13.client_outcome_depends_on_segmentation" ^ String.sub s i1 (String.length s - i1)
                          | None -> s ^ "|C13.client_outcome_depends_on_segmentation")
            | None -> s)
         else s) in
  if hang then bad ("ORACLE C10.call_never_returned " ^ where);
  (* after a failure every refused call must still give its tag back: 65535 leaked tags later ReqAlloc blocks for ever (C10) *)
  if not tagsback then bad ((if failing then "ORACLE C09.tags_not_recycled|C10.refused_or_failed_call_leaks_its_tag " else "ORACLE C09.tags_not_recycled ") ^ where);
  if disturbed then bad ("ORACLE C13.client_reply_disturbed_by_later_bytes|C09.call_holds_another_calls_data " ^ where);
  if not distinct then bad ("ORACLE C09.outstanding_tags_not_distinct " ^ where);
  List.iteri (fun i (c, own) ->
      if c = "hang" then bad ("ORACLE C10.call_never_returned " ^ where)
      else begin
        if (c = "ok" || c = "rerr") && not own then
          bad (Printf.sprintf "ORACLE C09.call_got_another_calls_reply call=%d %s" i where);
        let e = expected.(i) in
        if failing then begin
          if e = "connerr" && (c = "ok") then bad (Printf.sprintf "ORACLE C10.success_without_complete_reply call=%d %s" i where)
          else if e <> "connerr" && c = "connerr" && endk <> "unmount" then
            bad (Printf.sprintf "ORACLE C10.complete_reply_not_delivered call=%d %s" i where)
          else if c <> e && not (endk = "unmount" && c = "connerr") then
            bad (Printf.sprintf "ORACLE C10.wrong_outcome call=%d got=%s want=%s %s" i c e where)
        end else if c <> e then
          bad (Printf.sprintf "ORACLE C09.wrong_outcome call=%d got=%s want=%s %s" i c e where)
      end) res;
  if failing && late <> "connerr" then bad (Printf.sprintf "ORACLE C10.later_call_not_refused late=%s %s" late where);
  if !verdict <> "OK" then !verdict
  else if endk = "unmount" then "OK"
  else begin
    (* ---------------- correspondence: canonical schedule through the model ---------------- *)
    let k = 70 in
    let nat = nat_of_int in
    let calls = List.concat (List.init n (fun i -> [LNewCall (false, None)])) in
    let prep = List.concat (List.init n (fun i -> [LAlloc (nat i); LLock (nat i); LHandoff (nat i)])) in
    let kd = function "M" | "L" | "K" -> KMatch | "E" -> KRerror | _ -> KOther in
    let deliv = List.concat (List.mapi (fun pos (idx, kk) ->
        if pos < delivered then [LRecvFrame (n_of_int idx, kd kk); LDeliver; LTake (nat idx)] else []) order) in
    let pending = List.filter (fun i -> expected.(i) = "connerr") (List.init n (fun i -> i)) in
    let fail =
      if not failing then []
      else (if endk = "unknowntag" then [LRecvFrame (n_of_int 0x7777, KMatch)] else [LFail])
           @ [LClose; LClose] @ List.concat (List.map (fun i -> [LDeliver; LTake (nat i)]) pending) @ [LClose] in
    let frees = List.init n (fun i -> LFree (nat i)) in
    let latel = if failing then [LNewCall (false, None); LAlloc (nat n); LLock (nat n); LFree (nat n)] else [] in
    let labels = calls @ prep @ deliv @ fail @ frees @ latel in
    match crun (cinit_n (nat k)) labels with
    | None -> "DIFF model-rejects-canonical-schedule " ^ where
    | Some s ->
      let mres = List.map (fun c -> class_of_result c.c_res) s.callers in
      let ires = List.map fst res @ (if failing then [late] else []) in
      if mres <> ires then Printf.sprintf "DIFF results model=[%s] impl=[%s] %s" (String.concat "," mres) (String.concat "," ires) where
      else if List.length s.pool + List.length s.cache <> k then "DIFF tags-not-conserved " ^ where
      else "OK"
  end

let check_line (l : string) : string =
  let t = toks_of_line l in
  match next t with
  | "CL" -> check_cl t
  | "CI" ->
    let n = next_int t in let script = next t in
    expect t ";"; expect t "RES";
    let res = repeat_read n (fun () -> next t) in
    expect t ";"; expect t "HANG"; let hang = next_bool t in
    expect t ";"; expect t "TAGSBACK"; let tb = next_bool t in
    if hang then "ORACLE C09.interleaved_call_never_returned script=" ^ script
    else if List.exists (fun r -> r <> "ok:1") res then "ORACLE C09.interleaved_call_wrong_reply script=" ^ script ^ " res=" ^ String.concat "," res
    else if not tb then "ORACLE C09.tags_not_recycled script=" ^ script
    else "OK"
  | "CT" ->
    let n = next_int t in
    expect t "ORDER"; let order = next_bool t in
    expect t "PAIRED"; let paired = next_bool t in
    expect t "HANG"; let hang = next_bool t in
    if hang then Printf.sprintf "ORACLE C09.shared_tag_request_never_completed n=%d" n
    else if not order then Printf.sprintf "ORACLE C09.shared_tag_completions_out_of_order|C08.shared_tag_answers_delivered_out_of_order n=%d" n
    else if not paired then Printf.sprintf "ORACLE C09.shared_tag_reply_paired_with_wrong_request|C08.shared_tag_answers_delivered_out_of_order n=%d" n
    else "OK"
  | "SOAK" ->
    let n = next_int t in expect t "OK"; let ok = next_bool t in
    expect t "MAXTAG"; let _ = next_int t in expect t "DISTINCTTAGS"; let d = next_int t in
    if not ok then Printf.sprintf "ORACLE C09.soak_stalled_or_wrong_reply calls=%d" n
    else if d > 64 then Printf.sprintf "ORACLE C09.tags_not_recycled distinct=%d calls=%d" d n
    else "OK"
  | x -> failwith ("mode clnt: bad record " ^ x)
