(* C01 / C02: codec. Record kinds (see harness/codec.go):
   P <dotu> <bufsz> <dirty> <tag> MSG ; R <OK hex [SIZEFIELD n]|ERR|PANIC> ; T <OK hex|PANIC|-> ; U <OK tag n MSG|ERR|PANIC|->
   D <dotu> DIR ; R hex ; U <OK size DIR restlen amt|ERR|PANIC>
   RR <bufsz> <dirty> <n> <datahex> <k> ; R <OK hex|ERR|PANIC>
   X <dotu> hex ; U .. ; U2 .. ; U3 .. ; RE .. ; A <alloc>
   XD <dotu> hex ; U <OK size DIR restlen amt|ERR|PANIC> *)
open Model
open Conv

let read_qid t = let a = next_n t in let b = next_n t in let c = next_n t in { q_type = a; q_vers = b; q_path = c }

let read_dir t =
  let ty = next_n t in let dev = next_n t in let q = read_qid t in
  let mode = next_n t in let atime = next_n t in let mtime = next_n t in let length = next_n t in
  let name = next_bytes t in let uid = next_bytes t in let gid = next_bytes t in let muid = next_bytes t in
  let ext = next_bytes t in let un = next_n t in let gn = next_n t in let mn = next_n t in
  { d_type = ty; d_dev = dev; d_qid = q; d_mode = mode; d_atime = atime; d_mtime = mtime; d_length = length;
    d_name = name; d_uid = uid; d_gid = gid; d_muid = muid; d_ext = ext; d_uidnum = un; d_gidnum = gn; d_muidnum = mn }

let read_msg (t : toks) : msg =
  match next t with
  | "Tversion" -> let a = next_n t in let s = next_bytes t in Tversion_ (a, s)
  | "Rversion" -> let a = next_n t in let s = next_bytes t in Rversion_ (a, s)
  | "Tauth" -> let a = next_n t in let u = next_bytes t in let an = next_bytes t in let n = next_n t in Tauth_ (a, u, an, n)
  | "Rauth" -> Rauth_ (read_qid t)
  | "Tattach" -> let f = next_n t in let a = next_n t in let u = next_bytes t in let an = next_bytes t in let n = next_n t in
    Tattach_ (f, a, u, an, n)
  | "Rattach" -> Rattach_ (read_qid t)
  | "Rerror" -> let e = next_bytes t in let n = next_n t in Rerror_ (e, n)
  | "Tflush" -> Tflush_ (next_n t)
  | "Rflush" -> Rflush_
  | "Twalk" -> let f = next_n t in let nf = next_n t in let k = next_int t in
    let names = repeat_read k (fun () -> next_bytes t) in Twalk_ (f, nf, names)
  | "Rwalk" -> let k = next_int t in Rwalk_ (repeat_read k (fun () -> read_qid t))
  | "Topen" -> let f = next_n t in let m = next_n t in Topen_ (f, m)
  | "Ropen" -> let q = read_qid t in let io = next_n t in Ropen_ (q, io)
  | "Tcreate" -> let f = next_n t in let nm = next_bytes t in let p = next_n t in let m = next_n t in let e = next_bytes t in
    Tcreate_ (f, nm, p, m, e)
  | "Rcreate" -> let q = read_qid t in let io = next_n t in Rcreate_ (q, io)
  | "Tread" -> let f = next_n t in let o = next_n t in let c = next_n t in Tread_ (f, o, c)
  | "Rread" -> Rread_ (next_bytes t)
  | "Twrite" -> let f = next_n t in let o = next_n t in let d = next_bytes t in Twrite_ (f, o, d)
  | "Rwrite" -> Rwrite_ (next_n t)
  | "Tclunk" -> Tclunk_ (next_n t)
  | "Rclunk" -> Rclunk_
  | "Tremove" -> Tremove_ (next_n t)
  | "Rremove" -> Rremove_
  | "Tstat" -> Tstat_ (next_n t)
  | "Rstat" -> Rstat_ (read_dir t)
  | "Twstat" -> let f = next_n t in let d = read_dir t in Twstat_ (f, d)
  | "Rwstat" -> Rwstat_
  | x -> failwith ("bad message kind " ^ x)

let rec beq (a : n list) (b : n list) = match a, b with
  | [], [] -> true
  | x :: a', y :: b' -> N.eqb x y && beq a' b'
  | _ -> false

let qid_eq a b = N.eqb a.q_type b.q_type && N.eqb a.q_vers b.q_vers && N.eqb a.q_path b.q_path
let dir_eq a b =
  N.eqb a.d_type b.d_type && N.eqb a.d_dev b.d_dev && qid_eq a.d_qid b.d_qid && N.eqb a.d_mode b.d_mode
  && N.eqb a.d_atime b.d_atime && N.eqb a.d_mtime b.d_mtime && N.eqb a.d_length b.d_length
  && beq a.d_name b.d_name && beq a.d_uid b.d_uid && beq a.d_gid b.d_gid && beq a.d_muid b.d_muid
  && beq a.d_ext b.d_ext && N.eqb a.d_uidnum b.d_uidnum && N.eqb a.d_gidnum b.d_gidnum && N.eqb a.d_muidnum b.d_muidnum

let rec list_eq f a b = match a, b with
  | [], [] -> true | x :: a', y :: b' -> f x y && list_eq f a' b' | _ -> false

let msg_eq (a : msg) (b : msg) : bool =
  match a, b with
  | Tversion_ (x, s), Tversion_ (y, u) | Rversion_ (x, s), Rversion_ (y, u) -> N.eqb x y && beq s u
  | Tauth_ (a1, u1, n1, k1), Tauth_ (a2, u2, n2, k2) -> N.eqb a1 a2 && beq u1 u2 && beq n1 n2 && N.eqb k1 k2
  | Rauth_ q1, Rauth_ q2 | Rattach_ q1, Rattach_ q2 -> qid_eq q1 q2
  | Tattach_ (f1, a1, u1, n1, k1), Tattach_ (f2, a2, u2, n2, k2) ->
    N.eqb f1 f2 && N.eqb a1 a2 && beq u1 u2 && beq n1 n2 && N.eqb k1 k2
  | Rerror_ (e1, n1), Rerror_ (e2, n2) -> beq e1 e2 && N.eqb n1 n2
  | Tflush_ x, Tflush_ y | Rwrite_ x, Rwrite_ y | Tclunk_ x, Tclunk_ y | Tremove_ x, Tremove_ y | Tstat_ x, Tstat_ y -> N.eqb x y
  | Rflush_, Rflush_ | Rclunk_, Rclunk_ | Rremove_, Rremove_ | Rwstat_, Rwstat_ -> true
  | Twalk_ (f1, n1, l1), Twalk_ (f2, n2, l2) -> N.eqb f1 f2 && N.eqb n1 n2 && list_eq beq l1 l2
  | Rwalk_ l1, Rwalk_ l2 -> list_eq qid_eq l1 l2
  | Topen_ (f1, m1), Topen_ (f2, m2) -> N.eqb f1 f2 && N.eqb m1 m2
  | Ropen_ (q1, i1), Ropen_ (q2, i2) | Rcreate_ (q1, i1), Rcreate_ (q2, i2) -> qid_eq q1 q2 && N.eqb i1 i2
  | Tcreate_ (f1, n1, p1, m1, e1), Tcreate_ (f2, n2, p2, m2, e2) ->
    N.eqb f1 f2 && beq n1 n2 && N.eqb p1 p2 && N.eqb m1 m2 && beq e1 e2
  | Tread_ (f1, o1, c1), Tread_ (f2, o2, c2) -> N.eqb f1 f2 && N.eqb o1 o2 && N.eqb c1 c2
  | Rread_ d1, Rread_ d2 -> beq d1 d2
  | Twrite_ (f1, o1, d1), Twrite_ (f2, o2, d2) -> N.eqb f1 f2 && N.eqb o1 o2 && beq d1 d2
  | Rstat_ d1, Rstat_ d2 -> dir_eq d1 d2
  | Twstat_ (f1, d1), Twstat_ (f2, d2) -> N.eqb f1 f2 && dir_eq d1 d2
  | _ -> false

(* outcome of the implementation's Unpack as printed by the harness *)
type uobs = UOk of n * n * msg | UErr | UPanic | UNone

let read_uobs (t : toks) : uobs =
  match next t with
  | "OK" -> let tag = next_n t in let sz = next_n t in let m = read_msg t in UOk (tag, sz, m)
  | "ERR" -> UErr
  | "PANIC" -> UPanic
  | "-" -> UNone
  | x -> failwith ("bad unpack outcome " ^ x)

let uobs_eq a b = match a, b with
  | UOk (t1, s1, m1), UOk (t2, s2, m2) -> N.eqb t1 t2 && N.eqb s1 s2 && msg_eq m1 m2
  | UErr, UErr | UPanic, UPanic | UNone, UNone -> true
  | _ -> false

let model_unpack dotu buf : uobs =
  match unpack dotu buf with
  | Ok ((tag, m), sz) -> UOk (tag, sz, m)
  | Err _ -> UErr
  | Panic -> UPanic
  | OutOfFuel -> UPanic

let uobs_class = function UOk _ -> "OK" | UErr -> "ERR" | UPanic -> "PANIC" | UNone -> "-"

let kind_name (m : msg) = string_of_n (typ m)

let repeat_n (x : n) (k : int) : n list = List.init k (fun _ -> x)

let check_p (t : toks) : string =
  let dotu = next_bool t in let bufsz = next_int t in let dirty = next_n t in let tag = next_n t in
  let m = read_msg t in
  expect t ";"; expect t "R";
  let robs = match next t with
    | "OK" -> let h = next_bytes t in
      (match peek t with Some "SIZEFIELD" -> ignore (next t); ignore (next t); `SizeField | _ -> `Ok h)
    | "ERR" -> `Err | "PANIC" -> `Panic | x -> failwith ("bad R " ^ x) in
  expect t ";"; expect t "T";
  let tobs = match next t with "OK" -> `Ok (next_bytes t) | "PANIC" -> `Panic | "-" -> `None | x -> failwith ("bad T " ^ x) in
  expect t ";"; expect t "U";
  let uo = read_uobs t in
  let wf = wf_msg dotu m in
  let spec0 = spec_encode dotu c_NOTAG m in
  let spect = spec_encode dotu tag m in
  let fits = List.length spec0 <= bufsz in
  (* ---- oracle (C01): representable message => bytes are the layout; decode gives the fields back *)
  let oracle =
    if not wf then "OK"
    else match robs with
      | `SizeField -> "ORACLE size_field_ne_packet_length kind=" ^ kind_name m
      | `Panic -> "ORACLE pack_panics kind=" ^ kind_name m
      | `Err -> if fits then "ORACLE pack_refuses_fitting_buffer kind=" ^ kind_name m else "OK"
      | `Ok h ->
        if not fits then "ORACLE pack_overruns_buffer kind=" ^ kind_name m
        else if not (beq h spec0) then
          Printf.sprintf "ORACLE bytes_not_layout kind=%s dotu=%b impl=%s spec=%s" (kind_name m) dotu
            (hex_of_bytes h) (hex_of_bytes spec0)
        else match tobs with
          | `Panic | `None -> "ORACLE settag_failed kind=" ^ kind_name m
          | `Ok ht ->
            if not (beq ht spect) then "ORACLE settag_disturbs kind=" ^ kind_name m
            else match uo with
              | UOk (tg, sz, m') ->
                if not (N.eqb tg tag) then "ORACLE roundtrip_tag kind=" ^ kind_name m
                else if int_of_n sz <> List.length spect then "ORACLE roundtrip_consumed kind=" ^ kind_name m
                else if not (msg_eq m' (norm_msg dotu m)) then
                  Printf.sprintf "ORACLE roundtrip_fields kind=%s dotu=%b" (kind_name m) dotu
                else "OK"
              | _ -> Printf.sprintf "ORACLE roundtrip_rejected kind=%s dotu=%b outcome=%s" (kind_name m) dotu (uobs_class uo)
  in
  if oracle <> "OK" then oracle
  else begin
    (* ---- correspondence: model of the Go functions vs. the Go functions *)
    let buf = repeat_n dirty bufsz in
    let mp = pack dotu m buf in
    match mp, robs with
    | Ok p, `Ok h when beq p h ->
      (match set_tag p tag, tobs with
       | Ok pt, `Ok ht when beq pt ht ->
         let mu = model_unpack dotu (pt @ [n_of_int 0xde; n_of_int 0xad; n_of_int 0xbe]) in
         if uobs_eq mu uo then "OK" else "DIFF unpack-after-pack kind=" ^ kind_name m ^ " model=" ^ uobs_class mu ^ " impl=" ^ uobs_class uo
       | Panic, `Panic -> "OK"
       | _ -> "DIFF settag kind=" ^ kind_name m)
    | Err _, `Err -> "OK"
    | Panic, `Panic -> "OK"
    | _ -> if wf then "DIFF pack kind=" ^ kind_name m else "OK nonwf-unmodelled"
  end

let check_d (t : toks) : string =
  let dotu = next_bool t in
  let d = read_dir t in
  expect t ";"; expect t "R"; let h = next_bytes t in
  expect t ";"; expect t "U";
  let spec = spec_stat dotu d in
  let wf = wf_dir dotu d in
  let uobs = match next t with
    | "OK" -> let sz = next_n t in let d' = read_dir t in let rl = next_int t in let amt = next_int t in `Ok (sz, d', rl, amt)
    | "ERR" -> `Err | "PANIC" -> `Panic | x -> failwith x in
  if not wf then "OK nonwf"
  else if not (beq h spec) then "ORACLE stat_bytes_not_layout dotu=" ^ string_of_bool dotu
  else match uobs with
    | `Ok (sz, d', rl, amt) ->
      if amt <> List.length spec then "ORACLE stat_roundtrip_consumed"
      else if int_of_n sz <> List.length spec - 2 then "ORACLE stat_size_field"
      else if not (dir_eq d' (norm_dir dotu d)) then "ORACLE stat_roundtrip_fields dotu=" ^ string_of_bool dotu
      else
        (match pack_dir dotu d with
         | Ok p when beq p h -> "OK"
         | _ -> "DIFF pack_dir")
    | `Err -> "ORACLE stat_roundtrip_rejected"
    | `Panic -> "ORACLE stat_unpack_panics"

let check_rr (t : toks) : string =
  let bufsz = next_int t in let dirty = next_n t in let nn = next_n t in let data = next_bytes t in let k = next_n t in
  expect t ";"; expect t "R";
  let robs = match next t with "OK" -> `Ok (next_bytes t) | "ERR" -> `Err | "PANIC" -> `Panic | x -> failwith x in
  let fits = int_of_n nn + 11 <= bufsz in
  let rec firstn k l = if k <= 0 then [] else match l with [] -> [] | x :: r -> x :: firstn (k - 1) r in
  let spec = spec_encode false c_NOTAG (Rread_ (firstn (int_of_n k) data)) in
  let oracle = match robs with
    | `Ok h -> if fits && beq h spec then "OK" else "ORACLE rread_two_step_bytes"
    | `Err -> if fits then "ORACLE rread_two_step_refused" else "OK"
    | `Panic -> "ORACLE rread_two_step_panics" in
  if oracle <> "OK" then oracle
  else match rread_two_step (repeat_n dirty bufsz) nn data k, robs with
    | Ok p, `Ok h when beq p h -> "OK"
    | Err _, `Err -> "OK"
    | _ -> "DIFF rread_two_step"

let u32max_i = 0xffffffff

let check_x (t : toks) : string =
  let dotu = next_bool t in let buf = next_bytes t in
  expect t ";"; expect t "U"; let u = read_uobs t in
  expect t ";"; expect t "U2"; let u2 = read_uobs t in
  expect t ";"; expect t "U3"; let u3 = read_uobs t in
  expect t ";"; expect t "RE"; let re = read_uobs t in
  expect t ";"; expect t "A"; let alloc = next_int t in
  let blen = List.length buf in
  let ty = match buf with _ :: _ :: _ :: _ :: b :: _ -> int_of_n b | _ -> -1 in
  let tag = Printf.sprintf "type=%d len=%d dotu=%b" ty blen dotu in
  let oracle =
    match u with
    | UPanic -> "ORACLE decode_panics " ^ tag
    | UNone -> failwith "missing U"
    | _ ->
      if u2 <> UNone && not (uobs_eq u u2) then "ORACLE depends_on_bytes_beyond_size(exact) " ^ tag
      else if u3 <> UNone && not (uobs_eq u u3) then "ORACLE depends_on_bytes_beyond_size(junk) " ^ tag
      else if alloc > 64 * blen + 4096 then Printf.sprintf "ORACLE alloc_out_of_proportion alloc=%d %s" alloc tag
      else match u with
        | UOk (_, sz, m) ->
          let szi = int_of_n sz in
          let declared = match buf with a :: b :: c :: d :: _ ->
            int_of_n a + 256 * int_of_n b + 65536 * int_of_n c + 16777216 * int_of_n d | _ -> -1 in
          if szi < 7 || szi > blen || szi <> declared then "ORACLE consumed_ne_size_prefix " ^ tag
          else if ty < 100 || ty >= 128 || ty = 106 || int_of_n (typ m) <> ty then "ORACLE undefined_type_accepted " ^ tag
          else (match re with
              | UOk (_, _, m') when msg_eq m m' -> "OK"
              | UOk (_, _, _) -> "ORACLE reencode_changes_fields " ^ tag
              | _ -> "ORACLE reencode_rejected " ^ tag)
        | _ -> "OK" in
  if oracle <> "OK" then oracle
  else begin
    let mu = model_unpack dotu buf in
    if uobs_eq mu u then "OK"
    else Printf.sprintf "DIFF unpack model=%s impl=%s %s" (uobs_class mu) (uobs_class u) tag
  end

let check_xd (t : toks) : string =
  let dotu = next_bool t in let buf = next_bytes t in
  expect t ";"; expect t "U";
  let blen = List.length buf in
  let mu = unpack_dir dotu buf in
  match next t with
  | "PANIC" -> Printf.sprintf "ORACLE decode_dir_panics len=%d dotu=%b" blen dotu
  | "ERR" -> (match mu with Err _ -> "OK" | _ -> "DIFF unpack_dir model-not-err")
  | "OK" ->
    let sz = next_n t in let d = read_dir t in let rl = next_int t in let amt = next_int t in
    let slen l = 2 + List.length l in
    let want = 41 + slen d.d_name + slen d.d_uid + slen d.d_gid + slen d.d_muid + (if dotu then slen d.d_ext + 12 else 0) in
    if amt > blen || rl + amt <> blen then "ORACLE dir_consumed_out_of_range"
    else if amt <> want then
      (* what was consumed is not what the decoded fields occupy: some variable-length field was taken from outside the bytes *)
      Printf.sprintf "ORACLE stat_field_outside_the_record consumed=%d fields_occupy=%d dotu=%b" amt want dotu
    else (match mu with
        | Ok (((sz', d'), rest), amt') ->
          if N.eqb sz sz' && dir_eq d d' && List.length rest = rl && int_of_n amt' = amt then "OK"
          else "DIFF unpack_dir fields"
        | _ -> "DIFF unpack_dir model-not-ok")
  | x -> failwith x

let check_line (l : string) : string =
  let t = toks_of_line l in
  match next t with
  | "P" -> check_p t
  | "D" -> check_d t
  | "RR" -> check_rr t
  | "X" -> check_x t
  | "XD" -> check_xd t
  | x -> failwith ("mode codec: bad record " ^ x)
