(* C03 / C07 / C08 / C11: traces of the real server's schedule points replayed through
   the LTS Srv/Conc.v, and oracles on the visible behaviour.
   CH <kind> <maxpend> <flushop> <n> <label>*n ; WIRE <k> {<tag> <content>}*k ; REQ <n> {<rid> <tag> <kind> <nanswers> <flushed>}*n ; CLOSED <n> ; NOTE <text> *)
open Model
open Conv

let read_kind (s : string) : kind =
  if s = "V" then KVersion
  else if s = "O" then KOp
  else if String.length s > 1 && s.[0] = 'F' then KFlush (n_of_string (String.sub s 1 (String.length s - 1)))
  else failwith ("bad kind " ^ s)

let read_label (t : toks) : label =
  match next t with
  | "A" -> let tag = next_n t in let k = read_kind (next t) in LArrive (tag, k)
  | "WS" -> LWStart (nat_of_int (next_int t))
  | "RJ" -> let r = next_int t in let v = next_n t in LReject (nat_of_int r, v)
  | "OC" -> LOpCall (nat_of_int (next_int t))
  | "OR" -> LOpReturn (nat_of_int (next_int t))
  | "AN" -> let r = next_int t in let v = next_n t in LAnswer (nat_of_int r, v)
  | "F1" -> LF1 (nat_of_int (next_int t))
  | "F2" -> LF2 (nat_of_int (next_int t))
  | "F3" -> LF3 (nat_of_int (next_int t))
  | "FR" -> LFlushOpReturn (nat_of_int (next_int t))
  | "RF" -> LReqFlush (nat_of_int (next_int t))
  | "V1" -> LV1 (nat_of_int (next_int t))
  | "WT" -> LWTail (nat_of_int (next_int t))
  | "R" -> LR (nat_of_int (next_int t))
  | "SD" -> LSend
  | "DC" -> LDisconnect
  | x -> failwith ("bad label " ^ x)

let label_str = function
  | LArrive (tag, _) -> "A" ^ string_of_n tag
  | LWStart r -> "WS" ^ string_of_int (int_of_nat r)
  | LReject (r, _) -> "RJ" ^ string_of_int (int_of_nat r)
  | LOpCall r -> "OC" ^ string_of_int (int_of_nat r)
  | LOpReturn r -> "OR" ^ string_of_int (int_of_nat r)
  | LAnswer (r, _) -> "AN" ^ string_of_int (int_of_nat r)
  | LF1 r -> "F1." ^ string_of_int (int_of_nat r)
  | LF2 r -> "F2." ^ string_of_int (int_of_nat r)
  | LF3 r -> "F3." ^ string_of_int (int_of_nat r)
  | LFlushOpReturn r -> "FR" ^ string_of_int (int_of_nat r)
  | LReqFlush r -> "RF" ^ string_of_int (int_of_nat r)
  | LV1 r -> "V1." ^ string_of_int (int_of_nat r)
  | LWTail r -> "WT" ^ string_of_int (int_of_nat r)
  | LR f -> "R" ^ string_of_int (int_of_nat f)
  | LSend -> "SD"
  | LDisconnect -> "DC"

type reqinfo = { rid : int; tag : int; kind : kind; nans : int; flushed : bool }

let check_line (l : string) : string =
  let t = toks_of_line l in
  expect t "CH";
  let hkind = next t in
  let maxpend = next_int t in
  let flushop = next_bool t in
  let n = next_int t in
  let labels = repeat_read n (fun () -> read_label t) in
  expect t ";"; expect t "WIRE";
  let k = next_int t in
  let wire = repeat_read k (fun () -> let tag = next_int t in let c = next_n t in (tag, c)) in
  expect t ";"; expect t "REQ";
  let nr = next_int t in
  let reqs = repeat_read nr (fun () ->
      let rid = next_int t in let tag = next_int t in let kd = read_kind (next t) in
      let na = next_int t in let fl = next_bool t in { rid; tag; kind = kd; nans = na; flushed = fl }) in
  expect t ";"; expect t "CLOSED"; let nclosed = next_int t in
  expect t ";"; expect t "NOTE"; let note = next t in
  let ndup = List.length (List.filter (fun r -> r.nans >= 2) reqs) in
  (* a flush request whose own old tag names a flush request (flush of a flush) *)
  let nff = List.length (List.filter (fun f -> match f.kind with
      | KFlush old -> List.exists (fun r -> r.tag = int_of_n old && r.rid < f.rid && (match r.kind with KFlush _ -> true | _ -> false)) reqs
      | _ -> false) reqs) in
  let where = Printf.sprintf "kind=%s maxpend=%d flushop=%b dupanswers=%d flushofflush=%d" hkind maxpend flushop ndup nff in
  (* requests some later Tflush names: they may legitimately stay unanswered *)
  let reqs = List.map (fun r ->
      let fl = r.flushed || List.exists (fun f -> match f.kind with KFlush old -> int_of_n old = r.tag && f.rid <> r.rid | _ -> false) reqs in
      { r with flushed = fl }) reqs in
  let disconnected = List.exists (function LDisconnect -> true | _ -> false) labels in
  (* replay through the LTS first: the oracles use it only to classify known findings *)
  let cfgc = { maxpend = nat_of_int maxpend; has_flushop = flushop } in
  let rec goreplay s i = function
    | [] -> Stdlib.Ok s
    | lb :: rest -> (match step cfgc s lb with Some s' -> goreplay s' (i + 1) rest | None -> Stdlib.Error (i, lb)) in
  let replayed = goreplay init 0 labels in
  (* flush requests whose chain of targets leads back to themselves *)
  let in_cycle (f : int) : bool =
    match replayed with
    | Stdlib.Ok s ->
      let target i = (match List.nth_opt s.r i with Some q -> (match q.q_target with Some t -> Some (int_of_nat t) | None -> None) | None -> None) in
      let rec walk i k = if k = 0 then false else match target i with None -> false | Some t -> t = f || walk t (k - 1) in
      walk f 20
    | _ -> false in
  (* ---------------- oracles on the implementation's visible behaviour ---------------- *)
  let verdict = ref "OK" in
  let bad s = if !verdict = "OK" then verdict := s in
  let reqs_with_tag tg = List.filter (fun r -> r.tag = tg) reqs in
  (* contents the implementation / framework produced per request *)
  let produced rid =
    List.concat (List.map (function
        | LAnswer (r, v) when int_of_nat r = rid -> [v]
        | LReject (r, v) when int_of_nat r = rid -> [v]
        | _ -> []) labels) in
  let index_of p l = let rec go i = function [] -> -1 | x :: r -> if p x then i else go (i + 1) r in go 0 l in
  (* C03 *)
  List.iter (fun (tg, _) ->
      if reqs_with_tag tg = [] then bad (Printf.sprintf "ORACLE C03.reply_for_tag_without_request tag=%d %s" tg where)) wire;
  let tags = List.sort_uniq compare (List.map (fun r -> r.tag) reqs) in
  List.iter (fun tg ->
      let nrep = List.length (List.filter (fun (x, _) -> x = tg) wire) in
      let rs = reqs_with_tag tg in
      if nrep > List.length rs then bad (Printf.sprintf "ORACLE C03.more_replies_than_requests tag=%d replies=%d %s" tg nrep where);
      (match rs with
       | [r] ->
         (* content: one of the answers produced for this request *)
         List.iter (fun (x, c) ->
             if x = tg then begin
               let ok = (match r.kind with
                   | KFlush _ -> N.eqb c (n_of_int 1)
                   | KVersion -> N.eqb c (n_of_int 2)
                   | KOp -> List.exists (N.eqb c) (produced r.rid)) in
               if not ok then bad (Printf.sprintf "ORACLE C03.reply_content_not_produced_for_request tag=%d %s" tg where)
             end) wire;
         (* exactly one, unless cancelled by Tflush or the client went away *)
         let answered = (r.nans > 0 || produced r.rid <> []) || (match r.kind with KVersion -> true | _ -> false) in
         let answered = answered && (match r.kind with KFlush _ -> false | _ -> true) in
         if nrep = 0 && answered && not r.flushed && not disconnected
            && not (List.exists (fun q -> q.kind = KVersion && q.rid > r.rid) reqs) then
           bad (Printf.sprintf "ORACLE C03.answered_request_without_reply tag=%d %s" tg where)
       | _ -> ())) tags;
  (* C07 *)
  List.iter (fun f ->
      match f.kind with
      | KFlush old ->
        let oldi = int_of_n old in
        let fi = index_of (fun (x, _) -> x = f.tag) wire in
        if fi < 0 && not disconnected && not f.flushed then
          bad (Printf.sprintf "ORACLE C07.tflush_not_answered|C03.request_never_answered tag=%d %s flushcycle=%d" f.tag where (if in_cycle f.rid then 1 else 0));
        if fi >= 0 then begin
          (* the target: the newest earlier request with the old tag *)
          let cands = List.filter (fun r -> r.tag = oldi && r.rid < f.rid) reqs in
          (match List.rev cands with
           | tgt :: _ when List.length cands = 1 ->
             let ti = index_of (fun (x, _) -> x = oldi) wire in
             (* once the Rflush is out the old tag is no longer outstanding: the late reply is also a reply for a tag without a request (C03) *)
             if ti > fi then bad (Printf.sprintf "ORACLE C07.reply_after_rflush|C03.reply_for_tag_no_longer_outstanding oldtag=%d %s" oldi where);
             if ti < 0 then begin
               (* no reply preceded the Rflush: the target must be cancelled *)
               let rec after_send seen_sd = function
                 | [] -> ()
                 | LSend :: r ->
                   (* count sends: the fi-th LSend wrote the Rflush *)
                   after_send (seen_sd + 1) r
                 | LOpCall x :: r ->
                   if seen_sd > fi && int_of_nat x = tgt.rid then
                     bad (Printf.sprintf "ORACLE C07.cancelled_request_executed_after_rflush oldtag=%d %s" oldi where);
                   after_send seen_sd r
                 | _ :: r -> after_send seen_sd r in
               after_send 0 labels;
               let called = List.exists (function LOpCall x -> int_of_nat x = tgt.rid | _ -> false) labels in
               let agreed = List.exists (function LReqFlush x -> int_of_nat x = tgt.rid | _ -> false) labels in
               let rejected = produced tgt.rid <> [] && tgt.nans = 0 in
               if called && not agreed && not disconnected then
                 bad (Printf.sprintf "ORACLE C07.rflush_without_cancellation_or_reply oldtag=%d %s" oldi where);
               ignore rejected
             end
           | _ -> ())
        end
      | _ -> ()) reqs;
  (* C08: tag groups are executed and answered in arrival order *)
  List.iter (fun tg ->
      let rs = reqs_with_tag tg in
      if List.length rs >= 2 && List.for_all (fun r -> r.kind = KOp) rs then begin
        let calls = List.concat (List.map (function LOpCall x when List.exists (fun r -> r.rid = int_of_nat x) rs -> [int_of_nat x] | _ -> []) labels) in
        if calls <> List.sort compare calls then bad (Printf.sprintf "ORACLE C08.group_not_executed_in_arrival_order tag=%d %s" tg where);
        (* one at a time: a member is handed to the implementation only after the previous member was answered *)
        let pos_of p = index_of p labels in
        let rec pairs = function
          | a :: (b :: _ as rest) ->
            let ocb = pos_of (function LOpCall x -> int_of_nat x = b.rid | _ -> false) in
            let oca = pos_of (function LOpCall x -> int_of_nat x = a.rid | _ -> false) in
            let ana = pos_of (function LAnswer (x, _) -> int_of_nat x = a.rid | _ -> false) in
            if ocb >= 0 && oca >= 0 && (ana < 0 || ocb < ana) then
              bad (Printf.sprintf "ORACLE C08.group_member_started_before_its_predecessor_was_answered tag=%d %s" tg where);
            pairs rest
          | _ -> () in
        pairs (List.sort (fun a b -> compare a.rid b.rid) rs);
        let contents = List.concat (List.map (fun r -> match produced r.rid with v :: _ -> [v] | [] -> []) rs) in
        let wc = List.concat (List.map (fun (x, c) -> if x = tg then [c] else []) wire) in
        let rec is_prefix a b = match a, b with [], _ -> true | x :: a', y :: b' -> N.eqb x y && is_prefix a' b' | _ -> false in
        if not (is_prefix wc contents) then bad (Printf.sprintf "ORACLE C08.group_replies_out_of_order tag=%d %s" tg where);
        (* members named by a Tflush may legitimately stay unanswered (C07 judges them) *)
        let must = List.length (List.filter (fun r -> not r.flushed) rs) in
        if not disconnected && (List.length wc < must || List.length wc > List.length rs) then
          bad (Printf.sprintf "ORACLE C08.group_request_starved tag=%d replies=%d of %d %s" tg (List.length wc) (List.length rs) where)
      end) tags;
  (* oracle verdicts the harness itself reached (progress within a deadline): notes of the form Cxx.clause *)
  List.iter (fun nt ->
      if String.length nt > 4 && nt.[0] = 'C' && nt.[3] = '.' then bad (Printf.sprintf "ORACLE %s %s" nt where))
    (String.split_on_char ',' note);
  (* C11 *)
  if disconnected && nclosed <> 1 then bad (Printf.sprintf "ORACLE C11.conn_closed_count=%d %s" nclosed where);
  if not disconnected && nclosed <> 0 then bad (Printf.sprintf "ORACLE C11.closed_without_disconnect %s" where);
  if !verdict <> "OK" then !verdict
  else begin
    (* ---------------- correspondence: replay the schedule through the LTS ---------------- *)
    if note <> "-" then Printf.sprintf "DIFF harness-note %s %s" note where
    else match replayed with
      | Stdlib.Error (i, lb) ->
        Printf.sprintf "DIFF label-not-enabled index=%d label=%s of %d %s" i (label_str lb) (List.length labels) where
      | Stdlib.Ok s ->
        let mwire = List.map (fun ((r, tag), c) -> (int_of_n tag, c)) s.wire in
        (* the hook order of two independent enqueues may differ from the channel order:
           compared as multisets (reply order is judged by the oracles on the real wire) *)
        let canon l = List.sort compare (List.map (fun (t1, c1) -> (t1, string_of_n c1)) l) in
        let mw = canon (List.concat (List.map (fun (t1, c1) -> match c1 with Some x -> [(t1, x)] | None -> [(t1, N0)]) mwire)) in
        (* after a disconnect a reply already dequeued may or may not reach the dead transport *)
        let same = disconnected || mw = canon wire in
        if not same then Printf.sprintf "DIFF wire model=%d impl=%d %s" (List.length mwire) (List.length wire) where
        else begin
          (* all Respond invocations finished (no goroutine left inside Respond) *)
          let unfinished = List.filter (fun f -> match f.f_pc with RDone -> false | _ -> true) s.f in
          if unfinished <> [] then Printf.sprintf "ORACLE C11.respond_invocation_never_finished count=%d %s" (List.length unfinished) where
          else "OK"
        end
  end
