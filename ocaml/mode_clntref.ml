(* C09 / C10: the schedule points of the real client (callers in ReqAlloc / Rpcnb / Rpc / ReqFree, the
   receive goroutine matching, delivering, failing and shutting down) replayed through the client LTS
   Clnt/Model.v.  Labels logged after a channel operation (hand-over, delivery, take, alloc from /
   free to the Req cache) are not inside a critical section: their log order against other goroutines
   is not meaningful, so such a label may be deferred until it is enabled (every label must be applied
   in the end).
   CLT <k> <n> <label>* ; RES <m> {<class>}*m ; NOTE <text>
   labels: NC c ver | AL c tag cached | LK c | RFU c | HO c sent | RF tag kind | DL | FL | CL | TK c | FR c tag cached *)
open Model
open Conv

let class_of_result = function
  | Some (ROk _) -> "ok" | Some (RRerr _) -> "rerr" | Some (RInvalid _) -> "invalid"
  | Some RConnErr -> "connerr" | None -> "none"

type lab = { name : string; c : int; a : int; b : int }

let check_line (l : string) : string =
  let t = toks_of_line l in
  expect t "CLT";
  let k = next_int t in
  let n = next_int t in
  let labels = repeat_read n (fun () ->
    match next t with
    | "NC" -> let c = next_int t in let v = next_int t in { name = "NC"; c; a = v; b = 0 }
    | "AL" -> let c = next_int t in let tg = next_int t in let ch = next_int t in { name = "AL"; c; a = tg; b = ch }
    | "LK" -> let c = next_int t in { name = "LK"; c; a = 0; b = 0 }
    | "RFU" -> let c = next_int t in { name = "RFU"; c; a = 0; b = 0 }
    | "HO" -> let c = next_int t in let s = next_int t in { name = "HO"; c; a = s; b = 0 }
    | "RF" -> let tg = next_int t in let kd = next_int t in { name = "RF"; c = -1; a = tg; b = kd }
    | "DL" -> { name = "DL"; c = -1; a = 0; b = 0 }
    | "FL" -> { name = "FL"; c = -1; a = 0; b = 0 }
    | "CL" -> { name = "CL"; c = -1; a = 0; b = 0 }
    | "TK" -> let c = next_int t in { name = "TK"; c; a = 0; b = 0 }
    | "FR" -> let c = next_int t in let tg = next_int t in let ch = next_int t in { name = "FR"; c; a = tg; b = ch }
    | x -> failwith ("bad label " ^ x)) in
  expect t ";"; expect t "RES";
  let m = next_int t in
  let res = repeat_read m (fun () -> next t) in
  let nat = nat_of_int in
  (* try one label on a state: Some s' if enabled AND consistent with what the library reported *)
  let try_label (s : cst) (lb : lab) : cst option =
    match lb.name with
    | "NC" -> cstep s (LNewCall (lb.a = 1, None))
    | "AL" ->
      let from_cache = (match s.cache with [] -> false | _ -> true) in
      if from_cache <> (lb.b = 1) then None
      else
        (* the frees are logged after their channel send: the order of two frees in the log is not the
           order in the channel. The tag the library took must be IN the cache (pool); it is moved to the head. *)
        let front tg l =
          if List.exists (fun x -> int_of_n x = tg) l
          then Some (List.find (fun x -> int_of_n x = tg) l :: List.filter (fun x -> int_of_n x <> tg) l) else None in
        let s_opt = if from_cache then (match front lb.a s.cache with Some c' -> Some { s with cache = c' } | None -> None)
          else (match front lb.a s.pool with Some p' -> Some { s with pool = p' } | None -> None) in
        (match s_opt with
         | None -> None
         | Some s2 ->
           (match cstep s2 (LAlloc (nat lb.c)) with
            | Some s' ->
              (match List.nth_opt s'.creqs (List.length s'.creqs - 1) with
               | Some q when int_of_n q.cr_tag = lb.a -> Some s'
               | _ -> None)
            | None -> None))
    | "LK" -> if s.err then None else cstep s (LLock (nat lb.c))
    | "RFU" -> if s.err then cstep s (LLock (nat lb.c)) else None
    | "HO" ->
      (* once done is closed both branches of the hand-over select may be ready: the send goroutine can still
         take the request (it then drops it: clnt.err is set) - the model has only the done branch for that
         state, with the same visible behaviour. Before the close, the hand-over must be a real one. *)
      if s.done_closed then cstep s (LHandoff (nat lb.c))
      else if lb.a = 1 then cstep s (LHandoff (nat lb.c)) else None
    | "RF" ->
      let kd = (match lb.b with 2 -> KRerror | 3 -> KOther | _ -> KMatch) in
      (match cstep s (LRecvFrame (n_of_int lb.a, kd)) with
       | Some s' ->
         let found = (match s'.reader with RdDeliver _ -> true | _ -> false) in
         if found = (lb.b <> 0) then Some s' else None
       | None -> None)
    | "DL" -> cstep s LDeliver
    | "FL" -> cstep s LFail
    | "CL" -> cstep s LClose
    | "TK" -> cstep s (LTake (nat lb.c))
    | "FR" ->
      let to_cache = int_of_n (N.of_nat (nat_of_int (List.length s.cache))) < int_of_n Model.c_cap_clnt_reqchan in
      if to_cache <> (lb.b = 1) then None else cstep s (LFree (nat lb.c))
    | _ -> None in
  let deferrable lb = List.mem lb.name ["AL"; "HO"; "DL"; "TK"; "FR"; "CL"; "LK"; "RFU"] in
  let s = ref (cinit_n (nat k)) in
  let pending = ref [] in
  let verdict = ref "OK" in
  let rec drain () =
    let progressed = ref false in
    pending := List.filter (fun lb ->
        if !progressed then true
        else match try_label !s lb with
          | Some s' -> s := s'; progressed := true; false
          | None -> true) !pending;
    if !progressed then drain () in
  List.iteri (fun i lb ->
      if !verdict = "OK" then begin
        drain ();
        (* a deferred label of the same goroutine keeps its successors waiting (program order) *)
        let blocked = lb.c >= 0 && List.exists (fun p -> p.c = lb.c) !pending in
        match (if blocked then None else try_label !s lb) with
        | Some s' -> s := s'
        | None ->
          if deferrable lb && List.length !pending < 64 then pending := !pending @ [lb]
          else verdict := Printf.sprintf "DIFF label %d (%s c=%d a=%d b=%d): not enabled in the model" i lb.name lb.c lb.a lb.b
      end) labels;
  if !verdict <> "OK" then !verdict
  else begin
    drain ();
    (* the receive goroutine logs "delivered" after the hand-over on the caller's channel: the caller may have taken
       its result, returned and ended the history before that label was written. A caller's TK in the log proves that
       the delivery happened: a missing DL (fewer DL than matched frames in the log) is supplied once per waiting TK *)
    let count n = List.length (List.filter (fun lb -> lb.name = n) labels) in
    let missing = ref (count "RF" - count "DL") in
    while !pending <> [] && !missing > 0 && (match !pending with lb :: _ -> lb.name = "TK" || lb.name = "FR" | [] -> false) do
      decr missing;
      (match List.find_opt (fun lb -> lb.name = "DL") labels with
       | Some dl -> (match try_label !s dl with Some s' -> s := s' | None -> missing := 0)
       | None -> (match labels with lb0 :: _ -> (match try_label !s { lb0 with name = "DL"; c = -1 } with Some s' -> s := s' | None -> missing := 0) | [] -> missing := 0));
      drain ()
    done;
    match !pending with
    | lb :: _ -> Printf.sprintf "DIFF label (%s c=%d a=%d b=%d) never became enabled (%d deferred labels left)" lb.name lb.c lb.a lb.b (List.length !pending)
    | [] ->
      let mres = List.map (fun c -> class_of_result c.c_res) (!s).callers in
      if mres <> res then Printf.sprintf "DIFF results model=[%s] impl=[%s]" (String.concat "," mres) (String.concat "," res)
      else if List.length (!s).pool + List.length (!s).cache + List.length (live_tags !s) <> k then "DIFF tags-not-conserved"
      else "OK"
  end
