"""Per-property configuration for /verif/check."""
import os, re, hashlib

V = os.path.dirname(os.path.dirname(os.path.abspath(__file__)))

TRUSTED_BASE = [
    "Coq 8.16.1 kernel (coqc, full .vo build; vm_compute used in reflection lemmas and examples; no native_compute)",
    "no Axiom/Parameter/Conjecture/Admitted anywhere in /verif/coq (static scan on every run); kernel checks untouched",
    "translator /verif/gen (Go, go/ast+go/types): copies constants, tables, error values, channel capacities (and lock facts) from /repo into Gen/*.v on every run",
    "extraction: Require Extraction + ExtrOcamlBasic only (bool, option, unit, list, prod, sumbool, sumor to OCaml's; andb/orb/negb/fst/snd inlined); no Extract Constant of ours; nat/N/Z/positive stay extracted datatypes; OCaml 4.13.1 + hand-written /verif/ocaml/*.ml driver",
    "correspondence harness /verif/harness (Go): generators, scripted implementations, fake transports, canonicalisers; its generators bound what the tie has exercised",
    "Go compiler/runtime, sync.Mutex atomicity, channel semantics, os/syscall/net behaviour: modelled, not verified",
]

# axioms of the standard library that may appear in Print Assumptions
ALLOWED_AXIOMS = {
    "Coq.Logic.FunctionalExtensionality.functional_extensionality_dep",
    "FunctionalExtensionality.functional_extensionality_dep",
    "functional_extensionality_dep",
    "Coq.Logic.Classical_Prop.classic", "classic",
    "Coq.Logic.ProofIrrelevance.proof_irrelevance", "proof_irrelevance",
    "Coq.Logic.JMeq.JMeq_eq", "JMeq_eq",
    "Coq.Logic.Eqdep.Eq_rect_eq.eq_rect_eq", "Eqdep.Eq_rect_eq.eq_rect_eq", "eq_rect_eq",
}


def allowed_axiom(a):
    return a in ALLOWED_AXIOMS or a.split(".")[-1] in ALLOWED_AXIOMS


def model_files():
    txt = open(os.path.join(V, "coq", "theories", "Extract", "Extract.v")).read()
    txt = re.sub(r"\(\*.*?\*\)", "", txt, flags=re.S)
    out = []
    for m in re.finditer(r"From V9 Require Import ([^.]*(?:\.[A-Za-z][^.\s]*)*)\.", txt):
        pass
    for m in re.finditer(r"From V9 Require Import\s+((?:[A-Za-z0-9_]+(?:\.[A-Za-z0-9_]+)*\s*)+)\.", txt):
        for mod in m.group(1).split():
            out.append("theories/" + mod.replace(".", "/") + ".v")
    return out


def h(s):
    return hashlib.md5(s.encode()).hexdigest()[:12]


# ---- non-triviality rules: return a hashable key for a distinct non-trivial case, or None
def nt_log(mode, case):
    t = case.split()
    if t[0] == "SEQ":
        cap, nops = int(t[1]), int(t[2])
        nlog = case.count(" L ")
        if nlog > cap and " F " in case:      # the ring wrapped and a Filter looked at it
            return h(case)
        return None
    if t[0] == "CONC":
        return h(case) if re.search(r" F \S+ \d+ [1-9]", case) else None
    return None


def nt_codec(mode, case):
    t = case.split()
    if t[0] == "P":
        # distinct (type, dialect, buffer relation, first string-length class)
        i = case.index(" ; R ")
        head = case[:i].split()
        kind = head[5]
        rtag = case[i + 5:i + 8]
        lens = sorted(set(len(x) // 2 for x in head[6:] if len(x) > 6 and not x.isdigit()))
        return h("%s/%s/%s/%s" % (kind, t[1], rtag, lens[:3]))
    if t[0] in ("D", "RR"):
        return h(case[:4000])
    if t[0] == "X":
        # distinct (type byte, dialect, outcome class, length)
        hx = t[2]
        ty = hx[8:10] if len(hx) >= 10 else "--"
        i = case.index(" ; U ")
        out = case[i + 5:i + 8]
        return h("%s/%s/%s/%d" % (ty, t[1], out, len(hx) // 2))
    if t[0] == "XD":
        return h(case[:3000])
    return None


def nt_recv(mode, case):
    # non-trivial: at least two segments; distinct by (stream, segmentation)
    t = case.split()
    try:
        k = int(t[t.index("SEG") + 1])
    except Exception:
        return None
    return h(case[:200000]) if k >= 2 else None


def nt_ufs(mode, case):
    t = case.split()
    if t[0] == "IO":
        # non-trivial: at least one write-type and one read-type operation; distinct by content
        has_w = any(x in t for x in ("W", "X", "Q"))
        has_r = any(x in t for x in ("R", "N", "S"))
        return h(case[:100000]) if (has_w and has_r) else None
    if t[0] == "DIR":
        try:
            k = int(t[t.index("CH") + 1])
        except Exception:
            return None
        return h(case[:20000]) if k >= 2 or "TOOSMALL" in case else None   # a listing of several replies, or the error case
    if t[0] == "DIRX":
        return h(case[:20000])
    return None


NONTRIVIAL = {"C14": nt_ufs, "C15": nt_ufs, "C20": nt_log, "C01": nt_codec, "C02": nt_codec, "C13": nt_recv}


def nontrivial_key(prop, mode, case):
    f = NONTRIVIAL.get(prop)
    if f is None:
        return h(case)
    try:
        return f(mode, case)
    except Exception:
        return None


NOT_YET = {}

CODEC_NOTE = ("Trusted: Coq kernel; translator for message numbers and the minFcsize/minFcusize tables (a changed table entry is re-checked by the proofs); "
              "extraction (ExtrOcamlBasic only) and the OCaml driver; the Go harness and its generators. Go's copy/slice semantics are modelled by list operations. "
              "The layout specification (Codec/Msg.v: layout, spec_encode) is transcribed from the 9P manual pages and is itself trusted as the protocol's definition. "
              "Print Assumptions: closed under the global context.")

PROPS = {
    "C01": {
        "modes": [{"name": "codec", "harness": "codec", "modelcheck": "codec"}],
        "rule": "all 27 message types x {9P2000, 9P2000.u} x integer fields at 0/1/max-1/max/random x string length classes {0,1,2,255,256,65534,65535,random} with arbitrary bytes x 0..16 and 65535 walk names/qids x payloads up to >64 KiB x buffers exact / one short / larger, dirty with a random byte; "
                "PackX, SetTag, Unpack, PackDir, UnpackDir, InitRread+SetRreadCount run on the real code; the oracle compares the bytes with spec_encode (the independent layout) and the decoded fields with the input; the correspondence compares the Coq models pack/set_tag/unpack/pack_dir/unpack_dir/rread_two_step with the Go functions. "
                "Non-trivial/distinct: distinct (type, dialect, pack outcome, string-length classes) for messages; distinct content for stat records and two-step reads.",
        "level_text": "Coq theorems (Props/C01.v): for every message value representable on the wire, both dialects and ANY previous buffer contents, the model of each PackT*/PackR* constructor produces exactly spec_encode (size[4] type[1] tag[2] fields, size = packet length), refuses a buffer one byte short, SetTag changes only offsets 5-6, Unpack of those bytes (followed by anything) returns the same field values and consumes exactly the packet, stat records round-trip on their own, and InitRread/SetRreadCount equals the one-step Rread. Unbounded quantification over field values, string lengths 0..65535 and list lengths; the differential check ties the hand-written model to the Go functions on generated messages.",
        "level_note": CODEC_NOTE + " Values not representable on the wire (strings > 65535 bytes, > 65535 names) are outside the model (Go's pstr then overlaps writes).",
    },
    "C02": {
        "modes": [{"name": "decode", "harness": "decode", "modelcheck": "codec"}],
        "rule": "hostile byte strings against Unpack/UnpackDir under recover: every truncation of the canonical packet of every type in both dialects (size field kept and size field adjusted), declared-size variations -9..+13 and extremes, single-byte substitutions over header and first 24 body bytes, every 16-bit field forced to 0/1/0x8000/0xffff, trailing garbage inside the declared size, all 256 type bytes x short bodies, random frames; each also decoded on exactly the declared prefix and with junk appended, re-encoded with the library's own constructors and decoded again; TotalAlloc delta measured on every 5th frame. "
                "Non-trivial/distinct: distinct (type byte, dialect, outcome class, length).",
        "level_text": "Coq theorems (Props/C02.v) over the line-by-line model of Unpack/gstat/UnpackDir in which a short slice read is an explicit Panic: for EVERY byte string and either dialect the decoder never panics; on success the consumed length equals the size prefix (7 <= n <= input length), the type is a defined message type, every decoded field is within its wire type; the result depends only on the declared prefix; input-dependent allocations are bounded by 8x the input length; re-encoding the decoded fields decodes to the same fields. The model is tied to the Go code by exact differential comparison (outcome class, tag, size, every field) on ~36k hostile frames per quick run.",
        "level_note": CODEC_NOTE + " Allocation is modelled as the arguments of the three input-dependent make() sites (runtime allocator overhead trusted; the harness bounds the measured TotalAlloc).",
    },
    "C14": {
        "modes": [{"name": "ufsio", "harness": "ufsio", "modelcheck": "ufs"}],
        "rule": "real Clnt <-> real server framework <-> Ufs on a scratch tree: file lengths {0, 1, iounit-1, iounit, iounit+1, 2*iounit+1, 3*iounit-1, random} with random contents, msize {128, 256, 1000, 4096, 8192, 65536}, both dialects, 6-15 operations per file among Clnt.Read, File.Readn, File.Read, Clnt.Write, File.Written, File.Write with offsets at 0 / EOF-1 / EOF / past EOF / random and counts 0 / 1 / iounit / several iounits, a second file open at the same time. Oracle: after every operation the harness compares with the underlying file through the os package (returned bytes = file[off:off+n], file after write = POSIX pwrite); correspondence: the Coq model frun on the same operations returns the same data/counts/EOF and final file. Non-trivial: a case with at least one read-type and one write-type operation; distinct by content.",
        "level_text": "Coq theorems (Props/C14.v) over the model of Ufs.Read/Ufs.Write on a regular file, the srv.read/write count guard, Clnt.Open's iounit, Clnt.Read/Write and the File helpers: for every file content, msize, iounit, offset and count the bytes read equal POSIX pread of the file (empty at or beyond EOF), File.Read advances its offset by what it returned, Readn returns exactly the requested bytes up to EOF and Written leaves exactly pwrite(file, off, data) for ANY chunking (two different iounits give the same file). Tied to the code by differential runs against real files.",
        "level_note": "Trusted: Coq kernel, translator (IOHDRSZ), extraction + OCaml driver, Go harness. The underlying file is modelled as a byte list with POSIX pread/pwrite (validated against the os package in every harness run, not proved); offsets >= 2^63 are errors as in Go's ReadAt. Print Assumptions: closed under the global context.",
        "assumptions": ["os.File.ReadAt/WriteAt behave as POSIX pread/pwrite on regular files"],
    },
    "C15": {
        "modes": [{"name": "ufsdir", "harness": "ufsdir", "modelcheck": "ufs"}],
        "rule": "directories of 0, 1, 2, 5, 50 (thorough: up to 5000) entries with name lengths 1..255 on a scratch tree, msize {512, 4096, 65536}, both dialects; listings following the offset rule for every count from the largest entry size to three entries (exhaustive for small directories), random counts otherwise, too-small counts (max-1, 1, 0, first-1), restart at offset 0 mid-listing, arbitrary offsets (past the end, inside an entry, on boundaries) with counts 0/max/iounit, and the client's Readdir(0). Oracle (from the decoded record sizes and os.ReadDir only): every reply consists of whole entries, <= count bytes, offsets chain, complete set exactly once, error iff the next entry does not fit; correspondence: the Coq dir_window/listing model fed with the observed entry sizes predicts the same chunks and outcome. Non-trivial: a listing of >= 2 replies or a too-small case, and every off-rule offset case; distinct by content.",
        "level_text": "Coq theorems (Props/C15.v) over the arithmetic model (Go int as Z) of the directory branch of Ufs.Read: for every listing (any number of entries, any positive sizes), every offset and count: a reply consists of whole consecutive entries of at most count bytes and is non-empty while entries remain; following the offset rule with counts >= the largest entry yields every entry exactly once in order and then an empty reply; a count too small for the next entry is an error; Readdir(0) gets everything; off-rule offsets are refused or empty and never an ill-formed slice. Tied to the code by listings of real directories.",
        "level_note": "Trusted: Coq kernel, extraction + OCaml driver, Go harness. The snapshot (entry sizes and order) comes from the OS and is an input of the model; UnpackDir correctness is C01. Print Assumptions: closed under the global context.",
    },
    "C13": {
        "modes": [{"name": "recv", "harness": "recv", "modelcheck": "recv"}],
        "rule": "request streams of 8-40 independent messages (tiny and near-msize Twrite payloads, unknown fids, flushes, walks) with msize 64..4096 so the 8*msize buffer wraps and is reallocated, some ending in an oversize / undersize / undecodable frame; each stream is fed to the real server through a transport whose Read returns exactly the chosen segments: whole stream, every single split point (sampled in quick), one byte at a time, 30 random k-way splits. Oracle: delivered requests (tag, type, frame md5, payload md5 at delivery and at the end), reply bytes and close decision identical to the reference segmentation; correspondence: the Coq loop model on the same segments delivers the same frames and closes iff the server does. Non-trivial: >= 2 segments; distinct by (stream, segmentation).",
        "level_text": "Coq theorems (Props/C13.v): the model of both receive loops (buffer length/pos bookkeeping, inner framing loop, size check, reallocation, parameters re-read after a synchronous Tversion) delivers, for ANY segmentation of the stream into transport reads, exactly the frames of a framing specification that is a function of the concatenated stream only; it closes on a bad frame iff the specification does; it never issues an empty Read; the buffer stays within 8*msize. Unbounded in stream length, message count and segmentation. Tied to the code by running the real server under thousands of segmentations and comparing with the model.",
        "level_note": "Trusted: Coq kernel; translator for the 8*msize buffer factor and IOHDRSZ; extraction and OCaml driver; the Go harness (segment-exact fake net.Conn, hook recv.enqueued as delivery log). The loop model calls the decoder on the accumulated bytes and relies on C02's prefix-only theorem for the stale bytes behind pos; payload immutability (views are never overwritten) is checked by the harness (payload md5 at delivery vs. at the end), not proved; the client loop is proved on the model and tied through the C09/C10 client harness. Print Assumptions: closed under the global context.",
        "assumptions": ["net.Conn.Read returns between 1 and len(p) bytes of the stream in order"],
    },
    "C20": {
        "level_text": "Coq theorems (Props/C20.v) over the ring/LTS model of log.go: for every capacity >= 1 and every Log/Filter sequence the index-arithmetic model of doLog's two passes returns exactly the matching entries of the last min(k,N) logged, in order, never panicking or running out of fuel; in the producer/channel/logger LTS every Filter result is the window of a prefix of an order-preserving merge, Filter converges once the channel drains, and the logger is never stuck. The model is tied to the code by exact differential comparison of sequential Log/Filter histories on the real Logger and by the Coq-defined oracle on concurrent histories.",
        "level_note": "Trusted: Coq kernel; translator for cap_logchan; extraction (ExtrOcamlBasic only) and the OCaml driver; the Go harness. Assumed: goroutine scheduling fairness for convergence; pointer identity of *Log modelled by unique ids. Resize is not part of the property and is not modelled. Print Assumptions: closed under the global context.",
        "modes": [{"name": "log", "harness": "log", "modelcheck": "log"}],
        "rule": "random Log/Filter sequences on the real Logger, capacities 1..64, lengths below/at/far above capacity; "
                "sequential cases compared exactly with the Coq ring model (run_ops) and judged by filter_result_ok; "
                "concurrent cases (2-4 producers + a Filter goroutine) judged by conc_result_ok/conc_final_ok. "
                "Non-trivial: sequential case whose ring wrapped before a Filter, or concurrent case with a non-empty concurrent Filter result; distinct by content hash.",
        "assumptions": ["goroutine scheduling fairness for the convergence clause (the harness waits for a sentinel entry)"],
    },
}
