"""Per-property configuration for /verif/check."""
import os, re, hashlib

V = os.path.dirname(os.path.dirname(os.path.abspath(__file__)))

TRUSTED_BASE = [
    "Coq 8.16.1 kernel (coqc, full .vo build; vm_compute used in reflection lemmas and examples; no native_compute)",
    "no Axiom/Parameter/Conjecture/Admitted anywhere in /verif/coq (static scan on every run); kernel checks untouched",
    "translator /verif/gen (Go, go/ast+go/types): copies constants, tables, error values, channel capacities (and lock facts) from /repo into Gen/*.v on every run",
    "extraction: Require Extraction + ExtrOcamlBasic only (bool, option, unit, list, prod, sumbool, sumor to OCaml's; andb/orb/negb/fst/snd inlined); no Extract Constant of ours; nat/N/Z/positive stay extracted datatypes; OCaml 4.13.1 + hand-written /verif/ocaml/*.ml driver",
    "correspondence harness /verif/harness (Go): generators, scripted implementations, fake transports, canonicalisers; its generators bound what the tie has exercised",
    "Go compiler/runtime, sync.Mutex atomicity, channel semantics, os/syscall/net behaviour: modelled, not verified",
]

# axioms of the standard library that may appear in Print Assumptions
ALLOWED_AXIOMS = {
    "Coq.Logic.FunctionalExtensionality.functional_extensionality_dep",
    "FunctionalExtensionality.functional_extensionality_dep",
    "functional_extensionality_dep",
    "Coq.Logic.Classical_Prop.classic", "classic",
    "Coq.Logic.ProofIrrelevance.proof_irrelevance", "proof_irrelevance",
    "Coq.Logic.JMeq.JMeq_eq", "JMeq_eq",
    "Coq.Logic.Eqdep.Eq_rect_eq.eq_rect_eq", "Eqdep.Eq_rect_eq.eq_rect_eq", "eq_rect_eq",
}


def allowed_axiom(a):
    return a in ALLOWED_AXIOMS or a.split(".")[-1] in ALLOWED_AXIOMS


def model_files():
    txt = open(os.path.join(V, "coq", "theories", "Extract", "Extract.v")).read()
    txt = re.sub(r"\(\*.*?\*\)", "", txt, flags=re.S)
    out = []
    for m in re.finditer(r"From V9 Require Import ([^.]*(?:\.[A-Za-z][^.\s]*)*)\.", txt):
        pass
    for m in re.finditer(r"From V9 Require Import\s+((?:[A-Za-z0-9_]+(?:\.[A-Za-z0-9_]+)*\s*)+)\.", txt):
        for mod in m.group(1).split():
            out.append("theories/" + mod.replace(".", "/") + ".v")
    return out


def h(s):
    return hashlib.md5(s.encode()).hexdigest()[:12]


# ---- non-triviality rules: return a hashable key for a distinct non-trivial case, or None
def nt_log(mode, case):
    t = case.split()
    if t[0] == "SEQ":
        cap, nops = int(t[1]), int(t[2])
        nlog = case.count(" L ")
        if nlog > cap and " F " in case:      # the ring wrapped and a Filter looked at it
            return h(case)
        return None
    if t[0] == "CONC":
        return h(case) if re.search(r" F \S+ \d+ [1-9]", case) else None
    return None


NONTRIVIAL = {"C20": nt_log}


def nontrivial_key(prop, mode, case):
    f = NONTRIVIAL.get(prop)
    if f is None:
        return h(case)
    try:
        return f(mode, case)
    except Exception:
        return None


NOT_YET = {}

PROPS = {
    "C20": {
        "level_text": "Coq theorems (Props/C20.v) over the ring/LTS model of log.go: for every capacity >= 1 and every Log/Filter sequence the index-arithmetic model of doLog's two passes returns exactly the matching entries of the last min(k,N) logged, in order, never panicking or running out of fuel; in the producer/channel/logger LTS every Filter result is the window of a prefix of an order-preserving merge, Filter converges once the channel drains, and the logger is never stuck. The model is tied to the code by exact differential comparison of sequential Log/Filter histories on the real Logger and by the Coq-defined oracle on concurrent histories.",
        "level_note": "Trusted: Coq kernel; translator for cap_logchan; extraction (ExtrOcamlBasic only) and the OCaml driver; the Go harness. Assumed: goroutine scheduling fairness for convergence; pointer identity of *Log modelled by unique ids. Resize is not part of the property and is not modelled. Print Assumptions: closed under the global context.",
        "modes": [{"name": "log", "harness": "log", "modelcheck": "log"}],
        "rule": "random Log/Filter sequences on the real Logger, capacities 1..64, lengths below/at/far above capacity; "
                "sequential cases compared exactly with the Coq ring model (run_ops) and judged by filter_result_ok; "
                "concurrent cases (2-4 producers + a Filter goroutine) judged by conc_result_ok/conc_final_ok. "
                "Non-trivial: sequential case whose ring wrapped before a Filter, or concurrent case with a non-empty concurrent Filter result; distinct by content hash.",
        "assumptions": ["goroutine scheduling fairness for the convergence clause (the harness waits for a sentinel entry)"],
    },
}
