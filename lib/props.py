"""Per-property configuration for /verif/check."""
import os, re, hashlib

V = os.path.dirname(os.path.dirname(os.path.abspath(__file__)))

TRUSTED_BASE = [
    "Coq 8.16.1 kernel (coqc, full .vo build; vm_compute used in reflection lemmas and examples; no native_compute)",
    "no Axiom/Parameter/Conjecture/Admitted anywhere in /verif/coq (static scan on every run); kernel checks untouched",
    "translator /verif/gen (Go, go/ast+go/types): copies constants, tables, error values, channel capacities (and lock facts) from /repo into Gen/*.v on every run",
    "extraction: Require Extraction + ExtrOcamlBasic only (bool, option, unit, list, prod, sumbool, sumor to OCaml's; andb/orb/negb/fst/snd inlined); no Extract Constant of ours; nat/N/Z/positive stay extracted datatypes; OCaml 4.13.1 + hand-written /verif/ocaml/*.ml driver",
    "correspondence harness /verif/harness (Go): generators, scripted implementations, fake transports, canonicalisers; its generators bound what the tie has exercised",
    "Go compiler/runtime, sync.Mutex atomicity, channel semantics, os/syscall/net behaviour: modelled, not verified",
]

# axioms of the standard library that may appear in Print Assumptions
ALLOWED_AXIOMS = {
    "Coq.Logic.FunctionalExtensionality.functional_extensionality_dep",
    "FunctionalExtensionality.functional_extensionality_dep",
    "functional_extensionality_dep",
    "Coq.Logic.Classical_Prop.classic", "classic",
    "Coq.Logic.ProofIrrelevance.proof_irrelevance", "proof_irrelevance",
    "Coq.Logic.JMeq.JMeq_eq", "JMeq_eq",
    "Coq.Logic.Eqdep.Eq_rect_eq.eq_rect_eq", "Eqdep.Eq_rect_eq.eq_rect_eq", "eq_rect_eq",
}


def allowed_axiom(a):
    return a in ALLOWED_AXIOMS or a.split(".")[-1] in ALLOWED_AXIOMS


def model_files():
    txt = open(os.path.join(V, "coq", "theories", "Extract", "Extract.v")).read() + open(os.path.join(V, "coq", "theories", "Extract", "ExtractFidRef.v")).read() + open(os.path.join(V, "coq", "theories", "Extract", "ExtractBuf.v")).read()
    txt = re.sub(r"\(\*.*?\*\)", "", txt, flags=re.S)
    out = []
    for m in re.finditer(r"From V9 Require Import ([^.]*(?:\.[A-Za-z][^.\s]*)*)\.", txt):
        pass
    for m in re.finditer(r"From V9 Require Import\s+((?:[A-Za-z0-9_]+(?:\.[A-Za-z0-9_]+)*\s*)+)\.", txt):
        for mod in m.group(1).split():
            out.append("theories/" + mod.replace(".", "/") + ".v")
    return out


def h(s):
    return hashlib.md5(s.encode()).hexdigest()[:12]


# ---- non-triviality rules: return a hashable key for a distinct non-trivial case, or None
def nt_log(mode, case):
    t = case.split()
    if t[0] == "SEQ":
        cap, nops = int(t[1]), int(t[2])
        nlog = case.count(" L ")
        if nlog > cap and " F " in case:      # the ring wrapped and a Filter looked at it
            return h(case)
        return None
    if t[0] == "CONC":
        return h(case) if re.search(r" F \S+ \d+ [1-9]", case) else None
    return None


def nt_codec(mode, case):
    t = case.split()
    if t[0] == "P":
        # distinct (type, dialect, buffer relation, first string-length class)
        i = case.index(" ; R ")
        head = case[:i].split()
        kind = head[5]
        rtag = case[i + 5:i + 8]
        lens = sorted(set(len(x) // 2 for x in head[6:] if len(x) > 6 and not x.isdigit()))
        return h("%s/%s/%s/%s" % (kind, t[1], rtag, lens[:3]))
    if t[0] in ("D", "RR"):
        return h(case[:4000])
    if t[0] == "X":
        # distinct (type byte, dialect, outcome class, length)
        hx = t[2]
        ty = hx[8:10] if len(hx) >= 10 else "--"
        i = case.index(" ; U ")
        out = case[i + 5:i + 8]
        return h("%s/%s/%s/%d" % (ty, t[1], out, len(hx) // 2))
    if t[0] == "XD":
        return h(case[:3000])
    return None


def nt_recv(mode, case):
    # non-trivial: at least two segments; distinct by (stream, segmentation)
    t = case.split()
    try:
        k = int(t[t.index("SEG") + 1])
    except Exception:
        return None
    return h(case[:200000]) if k >= 2 else None


def nt_ufs(mode, case):
    t = case.split()
    if t[0] == "IO":
        # non-trivial: at least one write-type and one read-type operation; distinct by content
        has_w = any(x in t for x in ("W", "X", "Q"))
        has_r = any(x in t for x in ("R", "N", "S"))
        return h(case[:100000]) if (has_w and has_r) else None
    if t[0] == "DIR":
        try:
            k = int(t[t.index("CH") + 1])
        except Exception:
            return None
        return h(case[:20000]) if k >= 2 or "TOOSMALL" in case else None   # a listing of several replies, or the error case
    if t[0] == "DIRX":
        return h(case[:20000])
    return None


def nt_srvseq(mode, case):
    # non-trivial: a history with at least 3 requests of which one was forwarded; distinct by content
    return h(case[:200000]) if case.count(" Q ") >= 3 and " FWD " in case else None


def nt_clnt(mode, case):
    t = case.split()
    if t[0] == "CL":
        return h(case) if int(t[1]) >= 2 else None      # at least two concurrent calls
    return h(case)


def nt_tree(mode, case):
    return h(case[:100000])


def nt_recv_or_clnt(mode, case):
    return nt_recv(mode, case) if case.startswith("RS") else nt_clnt(mode, case)


def nt_conc_or_clnt(mode, case):
    return nt_clnt(mode, case) if case.split(" ", 1)[0] in ("CL", "CI", "CT", "CF", "SOAK") else nt_conc(mode, case)


def nt_srvseq_or_conc(mode, case):
    return nt_conc(mode, case) if case.split(" ", 1)[0] == "CH" else nt_srvseq(mode, case)


def nt_conc(mode, case):
    # non-trivial: at least two requests outstanding at once (two arrivals before a send), distinct by content
    t = case.split()
    if t[0] != "CH":
        return h(case[:50000])
    return h(case[:200000]) if case.count(" A ") >= 3 else None


NONTRIVIAL = {"C03": nt_conc, "C07": nt_conc, "C08": nt_conc_or_clnt, "C11": nt_conc, "C04": nt_srvseq, "C05": nt_srvseq, "C12": nt_srvseq_or_conc, "C09": nt_clnt, "C10": nt_clnt,
              "C16": nt_tree, "C17": nt_tree, "C18": nt_tree, "C14": nt_ufs, "C15": nt_ufs, "C20": nt_log, "C01": nt_codec, "C02": nt_codec, "C13": nt_recv_or_clnt}


def nontrivial_key(prop, mode, case):
    f = NONTRIVIAL.get(prop)
    if f is None:
        return h(case)
    try:
        return f(mode, case)
    except Exception:
        return None


NOT_YET = {}

CODEC_NOTE = ("Trusted: Coq kernel; translator for message numbers and the minFcsize/minFcusize tables (a changed table entry is re-checked by the proofs); "
              "extraction (ExtrOcamlBasic only) and the OCaml driver; the Go harness and its generators. Go's copy/slice semantics are modelled by list operations. "
              "The layout specification (Codec/Msg.v: layout, spec_encode) is transcribed from the 9P manual pages and is itself trusted as the protocol's definition. "
              "Print Assumptions: closed under the global context.")

PROPS = {
    "C01": {
        "modes": [{"name": "codec", "harness": "codec", "modelcheck": "codec"}],
        "rule": "all 27 message types x {9P2000, 9P2000.u} x integer fields at 0/1/max-1/max/random x string length classes {0,1,2,255,256,65534,65535,random} with arbitrary bytes x 0..16 and 3000 (thorough: 4000) walk names/qids x payloads up to >64 KiB x buffers exact / one short / larger, dirty with a random byte; "
                "PackX, SetTag, Unpack, PackDir, UnpackDir, InitRread+SetRreadCount run on the real code; the oracle compares the bytes with spec_encode (the independent layout) and the decoded fields with the input; the correspondence compares the Coq models pack/set_tag/unpack/pack_dir/unpack_dir/rread_two_step with the Go functions. "
                "Non-trivial/distinct: distinct (type, dialect, pack outcome, string-length classes) for messages; distinct content for stat records and two-step reads.",
        "level_text": "Coq theorems (Props/C01.v): for every message value representable on the wire, both dialects and ANY previous buffer contents, the model of each PackT*/PackR* constructor produces exactly spec_encode (size[4] type[1] tag[2] fields, size = packet length), refuses a buffer one byte short, SetTag changes only offsets 5-6, Unpack of those bytes (followed by anything) returns the same field values and consumes exactly the packet, stat records round-trip on their own, and InitRread/SetRreadCount equals the one-step Rread. Unbounded quantification over field values, string lengths 0..65535 and list lengths; the differential check ties the hand-written model to the Go functions on generated messages.",
        "level_note": CODEC_NOTE + " Values not representable on the wire (strings > 65535 bytes, > 65535 names) are outside the model (Go's pstr then overlaps writes).",
    },
    "C02": {
        "modes": [{"name": "decode", "harness": "decode", "modelcheck": "codec"}],
        "rule": "hostile byte strings against Unpack/UnpackDir under recover: every truncation of the canonical packet of every type in both dialects (size field kept and size field adjusted), declared-size variations -9..+13 and extremes, single-byte substitutions over header and first 24 body bytes, every 16-bit field forced to 0/1/0x8000/0xffff, trailing garbage inside the declared size, all 256 type bytes x short bodies, random frames; each also decoded on exactly the declared prefix and with junk appended, re-encoded with the library's own constructors and decoded again; TotalAlloc delta measured on every 5th frame. "
                "Non-trivial/distinct: distinct (type byte, dialect, outcome class, length).",
        "level_text": "Coq theorems (Props/C02.v) over the line-by-line model of Unpack/gstat/UnpackDir in which a short slice read is an explicit Panic: for EVERY byte string and either dialect the decoder never panics; on success the consumed length equals the size prefix (7 <= n <= input length), the type is a defined message type, every decoded field is within its wire type; the result depends only on the declared prefix; input-dependent allocations are bounded by 8x the input length; re-encoding the decoded fields decodes to the same fields. The model is tied to the Go code by exact differential comparison (outcome class, tag, size, every field) on ~36k hostile frames per quick run.",
        "level_note": CODEC_NOTE + " Allocation is modelled as the arguments of the three input-dependent make() sites (runtime allocator overhead trusted; the harness bounds the measured TotalAlloc).",
    },
    "C14": {
        "gen": ["consts", "shape"],
        "modes": [{"name": "ufsio", "harness": "ufsio", "modelcheck": "ufs"}],
        "rule": "In every fifth case the file is opened through a symbolic link inside the tree (the fid's Lstat describes the link, the descriptor is open on the file). real Clnt <-> real server framework <-> Ufs on a scratch tree: file lengths {0, 1, iounit-1, iounit, iounit+1, 2*iounit+1, 3*iounit-1, random} with random contents, msize {128, 256, 1000, 4096, 8192, 65536}, both dialects, 6-15 operations per file among Clnt.Read, File.Readn, File.Read, Clnt.Write, File.Written, File.Write with offsets at 0 / EOF-1 / EOF / past EOF / random and counts 0 / 1 / iounit / several iounits, a second file open at the same time. Oracle: after every operation the harness compares with the underlying file through the os package (returned bytes = file[off:off+n], file after write = POSIX pwrite); correspondence: the Coq model frun on the same operations returns the same data/counts/EOF and final file. Non-trivial: a case with at least one read-type and one write-type operation; distinct by content.",
        "level_text": "Coq theorems (Props/C14.v) over the model of Ufs.Read/Ufs.Write on a regular file, the srv.read/write count guard, Clnt.Open's iounit, Clnt.Read/Write and the File helpers: for every file content, msize, iounit, offset and count the bytes read equal POSIX pread of the file (empty at or beyond EOF), File.Read advances its offset by what it returned, Readn returns exactly the requested bytes up to EOF and Written leaves exactly pwrite(file, off, data) for ANY chunking (two different iounits give the same file). Tied to the code by differential runs against real files.",
        "level_note": "Trusted: Coq kernel, translator (IOHDRSZ), extraction + OCaml driver, Go harness. The underlying file is modelled as a byte list with POSIX pread/pwrite (validated against the os package in every harness run, not proved); offsets >= 2^63 are errors as in Go's ReadAt. Print Assumptions: closed under the global context.",
        "assumptions": ["os.File.ReadAt/WriteAt behave as POSIX pread/pwrite on regular files"],
    },
    "C15": {
        "gen": ["consts", "shape"],
        "modes": [{"name": "ufsdir", "harness": "ufsdir", "modelcheck": "ufs"}],
        "rule": "directories of 0, 1, 2, 5, 50 (thorough: up to 5000) entries with name lengths 1..255 on a scratch tree, msize {512, 4096, 65536}, both dialects; listings following the offset rule for every count from the largest entry size to three entries (exhaustive for small directories), random counts otherwise, too-small counts (max-1, 1, 0, first-1), restart at offset 0 mid-listing, arbitrary offsets (past the end, inside an entry, on boundaries) with counts 0/max/iounit, and the client's Readdir(0). Oracle (from the decoded record sizes and os.ReadDir only): every reply consists of whole entries, <= count bytes, offsets chain, complete set exactly once, error iff the next entry does not fit; correspondence: the Coq dir_window/listing model fed with the observed entry sizes predicts the same chunks and outcome. Non-trivial: a listing of >= 2 replies or a too-small case, and every off-rule offset case; distinct by content.",
        "level_text": "Coq theorems (Props/C15.v) over the arithmetic model (Go int as Z) of the directory branch of Ufs.Read: for every listing (any number of entries, any positive sizes), every offset and count: a reply consists of whole consecutive entries of at most count bytes and is non-empty while entries remain; following the offset rule with counts >= the largest entry yields every entry exactly once in order and then an empty reply; a count too small for the next entry is an error; Readdir(0) gets everything; off-rule offsets are refused or empty and never an ill-formed slice. Tied to the code by listings of real directories.",
        "level_note": "Trusted: Coq kernel, extraction + OCaml driver, Go harness. The snapshot (entry sizes and order) comes from the OS and is an input of the model; UnpackDir correctness is C01. Print Assumptions: closed under the global context.",
    },
    "C03": {
        "gen": ["consts", "shape", "lockfacts"],
        "clauses": ["C03"],
        "modes": [{"name": "srvconc", "harness": "srvconc", "modelcheck": "conc"},
                  {"name": "srvbuf", "harness": "srvconc", "modelcheck": "bufref", "args": ["buf"]}],
        "rule": "reply buffers: the same histories a second time with the buffer life cycle logged (request takes a pooled or a fresh Fcall, test-and-pack with the content id, Respond wins / cancelled, dequeue by the send goroutine, every Write with the content id of the bytes the transport was given, recycling) and REPLAYED through Srv/Buf.v: the pooled buffer taken must be the model's pool head, every step enabled, and the bytes written must be the bytes packed for that request (scenarios slowwrite, lateanswer: a held Write while later requests are answered into recycled buffers / a delayed second answer). And: real server + scripted implementation whose operations block until the plan releases them: 1..6 simultaneously outstanding requests released in random orders (sync and from other goroutines), duplicate answers with different content, framework rejections mixed in, Maxpend 0/1/4, with and without FlushOp; flush scenarios, tag groups and disconnects (shared with C07/C08/C11). Every schedule point of the library is logged and the label list is REPLAYED through the Coq LTS (each label must be enabled; the model's wire must equal the real one as a multiset); oracle on the real wire: no reply for a tag without request, at most one reply per request, content one of the answers produced for that request, answered requests get their reply. Non-trivial: >= 3 requests in the history; distinct by content.",
        "level_text": "Coq theorems (Props/C03.v) over the reply-buffer LTS (Srv/Buf.v: any number of requests, buffers recycled between them, any number of answers per request from any goroutine): every Write hands the transport bytes packed for that very request, a buffer in use belongs to exactly one request, the pool holds free buffers only (the code before fix 6aa8132 - test and pack as two steps - and recycling before the Write are refuted by schedules); and over the life-cycle LTS of a connection (recv linking, process() test of reqFlush/reqWork, Respond as R1 test-and-set / PostProcess / enqueue / unlink / next-of-tag-group / flush loop, send goroutine, Flush, flush, version, disconnect) for EVERY reachable state - any number of outstanding requests, any interleaving, any number of answers from any goroutine: at most one reply per request is ever queued or written; every reply carries the tag of a received request and a content packed for that request (exactly the answer when there was one answer); at quiescence on an open connection every answered, not cancelled request has exactly one reply on the wire. Tied to the code by replaying real schedule-point traces through the LTS.",
        "level_note": "Trusted: Coq kernel; extraction + OCaml driver; the Go harness: the translation of the library's schedule points (verifPoint hooks, logged under one mutex inside the library's own critical sections) into LTS labels, the scripted implementation, the fake transport. The LTS over-approximates call/return of nested Respond calls (every real schedule is a schedule of the LTS); mutex atomicity, channel FIFO/rendezvous and goroutine semantics of the Go runtime are assumed; the fid table and message contents are abstracted (C04/C05 and content ids); reply-buffer recycling between requests is exercised by the harness only. Print Assumptions: closed under the global context.",
    },
    "C07": {
        "gen": ["consts", "shape", "lockfacts"],
        "clauses": ["C07"],
        "modes": [{"name": "srvconc", "harness": "srvconc", "modelcheck": "conc"}],
        "rule": "flushwalk: a Twalk to a new fid is cancelled by the implementation (FlushOp calling req.Flush()) while it executes; only the Rflush arrives, the cancelled new fid is reported destroyed exactly once and its number is free again (the same Twalk sent afterwards reaches the implementation). Tflush arriving at every stage of the target's life: in the same segment as the target (before it starts), while it is blocked in the implementation (with and without FlushOp, implementation agreeing to cancel or not), while the implementation answers concurrently, after the reply, unknown tag, flush of a flush and two flushes of one request, a Tflush naming itself / two naming each other (known finding); Maxpend 0/1/4. Replay of the schedule-point trace through the LTS plus oracle on the real wire: every Tflush answered once, the target's reply never after the Rflush, and when no reply preceded the Rflush the target is not handed to the implementation afterwards. Non-trivial: >= 3 requests; distinct by content.",
        "level_text": "Coq theorems (Props/C07.v) over the life-cycle LTS, for EVERY reachable state and schedule: if both the flushed request's reply and the Rflush are written the reply comes first; once the Rflush is on the wire without a preceding reply the target is never handed to the implementation afterwards and never answered; a request whose reqFlush bit is set before any goroutine worked on it is never executed, and the flush handler cancels only such requests; every Tflush whose target is an ordinary request is answered exactly once. The unrestricted 'every Tflush is answered' is REFUTED on the faithful model (a Tflush naming its own tag waits for itself), replayed on the real server and recorded as known finding flush-cycle. A Tflush whose target is itself a Tflush waits for it (it is not cancelled) and is answered exactly once for target chains of any depth; the only flushes left out are those on a cycle of Tflush requests - which is exactly the recorded finding (a Tflush naming itself).",
        "level_note": "Trusted: Coq kernel; extraction + OCaml driver; the Go harness: the translation of the library's schedule points (verifPoint hooks, logged under one mutex inside the library's own critical sections) into LTS labels, the scripted implementation, the fake transport. The LTS over-approximates call/return of nested Respond calls (every real schedule is a schedule of the LTS); mutex atomicity, channel FIFO/rendezvous and goroutine semantics of the Go runtime are assumed; the fid table and message contents are abstracted (C04/C05 and content ids); reply-buffer recycling between requests is exercised by the harness only. Print Assumptions: closed under the global context. Shared-tag targets are outside the quantifier (hypothesis NoGroups).",
    },
    "C08": {
        "gen": ["consts", "shape", "lockfacts"],
        "clauses": ["C08"],
        "modes": [{"name": "srvconc", "harness": "srvconc", "modelcheck": "conc"},
                  {"name": "clnt", "harness": "clnt", "modelcheck": "clnt"}],
        "rule": "requests held blocked in the implementation while others are issued, answered and must complete (every history must finish within its deadline), release in random orders, tag groups of 2/3/5/8 requests sharing one tag mixed with other tags, Maxpend 0/1/4. Replay through the LTS plus oracle: group members are handed to the implementation in arrival order, one at a time, replies in arrival order, none starved; no request waits for an unrelated blocked one. Non-trivial: >= 3 requests; distinct by content.",
        "level_text": "Coq theorems (Props/C08.v) over the life-cycle LTS, for EVERY reachable state: a Respond in progress can be completed using only steps of that invocation and of the send goroutine (constructively: a finite step sequence exists), whatever other requests are blocked in the implementation; a worker that does not wait for the implementation can always take its next step; of requests sharing a tag the newer one is not started before the older one's reply has been queued, and their replies are written in arrival order. 'Never delays' is rendered as: no step of a request's own path depends on another request.",
        "level_note": "Trusted: Coq kernel; extraction + OCaml driver; the Go harness: the translation of the library's schedule points (verifPoint hooks, logged under one mutex inside the library's own critical sections) into LTS labels, the scripted implementation, the fake transport. The LTS over-approximates call/return of nested Respond calls (every real schedule is a schedule of the LTS); mutex atomicity, channel FIFO/rendezvous and goroutine semantics of the Go runtime are assumed; the fid table and message contents are abstracted (C04/C05 and content ids); reply-buffer recycling between requests is exercised by the harness only. Print Assumptions: closed under the global context. Scheduler fairness and transport progress (the send goroutine gets to run, the peer reads) are assumed; several connections share no state in the model (one LTS per connection).",
    },
    "C11": {
        "gen": ["consts", "shape", "lockfacts"],
        "clauses": ["C11"],
        "modes": [{"name": "srvconc", "harness": "srvconc", "modelcheck": "conc"},
                  {"name": "fidlife", "harness": "fidlife", "modelcheck": "fidref", "timeout": {"quick": 900, "thorough": 3000}},
                  {"name": "bystander", "harness": "bystander", "modelcheck": None},
                  {"name": "ufsfds", "harness": "ufsfds", "modelcheck": None},
                  {"name": "srvseq-random", "harness": "srvseq", "modelcheck": "srvseq", "args": ["random"]}],
        "rule": "ufsfds: Ufs on a scratch tree, one client session per case in either dialect: fids walked (complete, partial, failing), files and directories opened and read, files / directories / symbolic links / hard links created (hard links that fail too: existing name, directory target), clunks, removes, refused second opens; the session ends by an orderly unmount, by cutting the transport, or by cutting it with a read outstanding; afterwards every fid object the implementation was shown must have been reported destroyed exactly once, ConnClosed exactly once, and no descriptor of the process may point into the exported tree any more (/proc/self/fd). bystander: a victim and a bystander connection on one server; the victim disconnects while the implementation's FidDestroy / ConnClosed callback blocks; the bystander's requests and a brand-new connection must be served meanwhile, and the victim is released completely afterwards. Fid life time: fids in several states (attached, walked, opened), then 0..4 requests (walks creating fids, attaches, clunks, removes, stats, in-place walks) held either before the framework processes them or inside the implementation, some released before and the rest after the disconnect in random order, answered with success or error; every fid object the library created must be reported destroyed exactly once when everything is quiet, and the library's fid schedule points (FidNew, FidGet lookup/increment, retain, unlink, DecRef, destroy, close snapshot; logged inside the library's own critical sections) are replayed through Srv/FidRef.v with the reported refcount and flags compared at every step. Also: replies piled up behind a blocked Write and at the hand-over to the send goroutine when the client disconnects (discslow), Tversion frames still buffered when a Write fails (discver). And: disconnect with 0..4 requests blocked in the implementation, some answered before and the rest after the disconnect in random orders (sync and async), Maxpend 0/1/4: the schedule-point trace is replayed through the LTS and every Respond invocation must have finished (no goroutine left inside Respond), ConnClosed exactly once; sequential histories ending in a disconnect: every fid still valid (per the abstract fid set) is destroyed exactly once at close, nothing else is. Non-trivial: >= 3 requests; distinct by content.",
        "level_text": "Coq theorems (Props/C11.v) over the life-cycle LTS for EVERY reachable state: after the disconnect nothing is written or received, the disconnect cannot happen twice, and no Respond ever blocks (every goroutine still answering for the dead connection can finish); over the fid life-time LTS (Srv/FidRef.v, every label one critical section of FidNew/FidGet/retain/unlink/DecRef/Conn.close, any interleaving with requests in flight): every fid is reported destroyed at most once, never while a request holds a counted reference, the reference count equals the number of holders, and once the connection is closed and the requests have returned every fid ever created has been destroyed exactly once and the table is empty (the reference counting before fix 7f592a2 is refuted by concrete schedules: destroyed twice, never, and resurrected); with the sequential model's invariant (one reference per fid) the close path destroys each remaining fid exactly once. Tied to the code by trace replay of disconnect histories and by the close events of sequential histories.",
        "level_note": "Trusted: Coq kernel; extraction + OCaml driver; the Go harness: the translation of the library's schedule points (verifPoint hooks, logged under one mutex inside the library's own critical sections) into LTS labels, the scripted implementation, the fake transport. The LTS over-approximates call/return of nested Respond calls (every real schedule is a schedule of the LTS); mutex atomicity, channel FIFO/rendezvous and goroutine semantics of the Go runtime are assumed; the fid table and message contents are abstracted (C04/C05 and content ids); reply-buffer recycling between requests is exercised by the harness only. Print Assumptions: closed under the global context. Not covered by a theorem: fids created by requests that complete after the close loop (they are reclaimed only by the garbage collector), Ufs closing its descriptors (FidDestroy -> Close is one line; observed through /proc/self/fd by the ufsfds sessions, not modelled), goroutine counts (checked through the model's finished-frames criterion, not through the runtime).",
    },
    "C04": {
        "gen": ["consts", "shape"],
        "clauses": ["C04"],
        "modes": [{"name": "srvseq-random", "harness": "srvseq", "modelcheck": "srvseq", "args": ["random"]},
                  {"name": "srvseq-product", "harness": "srvseq", "modelcheck": "srvseq", "args": ["product"]}],
        "rule": "real server + scripted implementation over net.Pipe, one request at a time: random histories of 20-80 (thorough: up to 2000) requests over the fid numbers {0,1,2,7,NOFID-1,NOFID} (attach/auth/walk full, partial, failing, in place/open/create/read/write/stat/clunk/remove/flush) with implementation success or error, Tstat probes on every fid of the universe, both dialects, with and without AuthOps, msize from 24 up; plus the exhaustive (fid state x request) product. Every reply (bytes) and every event (forwarded operation with fid/user/arguments, AuthCheck, FidDestroy, ConnClosed) is compared with the Coq model seq_step; the oracle maintains the abstract fid set from the replies (spec_step) and checks unknown-fid / fid-in-use refusals, user binding, destroy-exactly-once. Non-trivial: >= 3 requests with at least one forwarded; distinct by content.",
        "level_text": "Coq theorems (Props/C04.v) over the sequential server model (Process, PostProcess, FidGet/FidNew/IncRef/DecRef, every srv.<op> handler and post-handler): for EVERY history and whatever the implementation answers, each remaining fid has exactly one reference between requests, the concrete table equals the abstract fid set the statement defines (valid only via successful Tauth/Tattach/complete Twalk, invalid after successful Tclunk or any Tremove, unchanged otherwise, users preserved), invalid fids are refused with 'unknown fid' and bound fids with 'fid already in use' without reaching the implementation, and FidDestroy is emitted exactly once, in the step that invalidates the fid. Tied to the code by byte-exact comparison of replies and event-exact comparison of what the implementation is shown. Next to the fid set, the open state and the type bits of every fid are proved to be the functions of the protocol history the statement implies (ospec_step / tspec_step: driven by request and reply only; unchanged by failed, partial or unrelated operations), and the source-side premises (handlers check before they change, FidGet refuses fids being created, order of Respond, fid life time) are re-checked on every run.",
        "level_note": "Trusted: Coq kernel; translator for error texts/numbers, IOHDRSZ/MSIZE/NOFID/NOUID and the QT*/DM*/O* bits; extraction + OCaml driver; the Go harness (scripted implementation, net.Pipe transport). One request at a time (the concurrent life cycle is C03/C07/C08/C11); the user database is the default OsUsers; the implementation is an arbitrary input (script) answering with the matching R-message or an error; the reply buffer is modelled by its capacity. Print Assumptions: closed under the global context. With msize below 13+len(text) the error text is truncated (theorems carry that hypothesis). Fid numbers private to a connection: connections share no fid state in the model (one table per conn), checked by the harness only through separate sessions.",
    },
    "C05": {
        "gen": ["consts", "shape"],
        "clauses": ["C05"],
        "modes": [{"name": "srvseq-product", "harness": "srvseq", "modelcheck": "srvseq", "args": ["product"]},
                  {"name": "srvseq-random", "harness": "srvseq", "modelcheck": "srvseq", "args": ["random"]}],
        "rule": "exhaustive product: fid state {absent, directory, open directory, file, auth fid, file open with each of OREAD/OWRITE/ORDWR/OEXEC and OTRUNC/ORCLOSE variants} x every request kind x open modes (quick: 15 representatives, thorough: all 256) x permission bits {none, DMDIR, each special bit, combinations} x counts {0, 1, msize-25, msize-24, msize-23, msize, 2^31, 2^32-25 .. 2^32-1} x both dialects x AuthOps on/off x AuthCheck accept/refuse, each followed by a Twrite and Tstat probes (effects visible to later requests); plus random histories. Oracle: forwarded <=> fid_ok && rules_ok (the statement's table, evaluated on the reference state), refused => Rerror, forwarded once with the client's fid/user/arguments, AuthCheck before Attach; correspondence: replies and events equal the model's. Non-trivial: >= 3 requests with at least one forwarded; distinct by content.",
        "level_text": "Coq theorems (Props/C05.v): for EVERY connection state satisfying the invariant, EVERY request (all 32-bit counts, all modes and permission bits) and whatever the implementation: the request is forwarded iff its fid is valid and the statement's rule table allows it; the 32-bit count guard as written equals count+IOHDRSZ <= msize over the naturals; a forwarded request is forwarded once with the fid, user and arguments the client named; a refused one is answered with Rerror; with AuthOps an attach is forwarded only after AuthCheck accepted it; every step re-establishes the state the next request is judged in. Tied to the code by the exhaustive product run. The fid attributes the rule table consults - open or not and in which mode, directory / auth / file - are proved to follow the protocol history (functions of requests and replies only: a refused or failed request changes none of them), so that 'forwarded iff the rules allow it' speaks of the history-determined state, not of the framework's private bookkeeping; the rule 'not open for writing' covers OREAD and OEXEC, the count limit covers authentication fids.",
        "level_note": "Trusted: Coq kernel; translator for error texts/numbers, IOHDRSZ/MSIZE/NOFID/NOUID and the QT*/DM*/O* bits; extraction + OCaml driver; the Go harness (scripted implementation, net.Pipe transport). One request at a time (the concurrent life cycle is C03/C07/C08/C11); the user database is the default OsUsers; the implementation is an arbitrary input (script) answering with the matching R-message or an error; the reply buffer is modelled by its capacity. Print Assumptions: closed under the global context.",
    },
    "C12": {
        "gen": ["consts", "shape"],
        "clauses": ["C12"],
        "modes": [{"name": "srvseq-version", "harness": "srvseq", "modelcheck": "srvseq", "args": ["version"]},
                  {"name": "clntver", "harness": "clntver", "modelcheck": "clnt"},
                  {"name": "srvconc", "harness": "srvconc", "modelcheck": "conc"},
                  {"name": "srvseq-random", "harness": "srvseq", "modelcheck": "srvseq", "args": ["random"]}],
        "rule": "srvconc (the concurrent scenarios of C03, replayed label by label through Srv/Conc.v): in particular vermid - a Tversion in mid-session while a shared-tag group (one member executing, one waiting) and a request under another tag are inside the implementation; no reply to a request from before the Rversion may follow it (such a reply would be sized and encoded for the old msize and dialect). clntver (the client's direction): the real client's Connect against a scripted peer answering Rversion with msize far below / 1..25 below / equal to / above the client's proposal (client msize 24 .. 1 MiB+24) and either version string, for clients that do and do not ask for 9P2000.u; then attach, open (reported iounit 0, small, huge, msize-24, msize-23), one Write and one Read with buffers up to 3 x msize: the Tversion sent, the msize and dialect adopted, the largest Twrite frame and the Tread count are compared with Clnt/Version.v (clnt_connect, open_iounit, twrite_frame_len, tread_count); oracle: adopted msize = min, no frame above it, dialect conjunction. grid server msize x client msize over {0, 1, 23, 24, 25, 64, 100, 4096, 8191, 8192, 8193, 1 MiB+24, 2^32-1} x server dialect x version strings {9P2000, 9P2000.u, 9P2000.L, empty, junk, near misses}; after negotiation replies of every kind incl. a 255-byte-name Rstat, 16-qid Rwalk, 300-byte Rerror, reads with counts up to the limit, and a second Tversion lowering msize mid-session so replies go through recycled buffers; random histories with frames above msize. Oracle: Rversion = min / dialect conjunction, small msize refused, no reply longer than the msize in force, replies decodable in the negotiated dialect, oversize or undecodable frames answered by nothing and executing nothing. Non-trivial: >= 3 requests with at least one forwarded; distinct by content.",
        "level_text": "Coq theorems (Props/C12.v): Tversion yields exactly min(client msize, connection msize) and 9P2000.u only if the client asked for it and the server supports it, an msize below IOHDRSZ is refused leaving the connection unchanged; for EVERY later request and whatever the implementation answers no reply is longer than the msize in force when the request arrived (too long replies and error texts are replaced/truncated as the code does); msize stays within [IOHDRSZ, server msize]; the framing specification the receive loop is proved equal to (C13) never delivers a frame above msize or below a header. Tied to the code by the negotiation grid with byte-exact reply comparison. The client's direction: Connect adopts exactly min(own, server's) msize and 9P2000.u only if it asked for it and the server answered with it; composed with the server's Tversion handler, both sides hold the same msize and dialect after the exchange, for every state of the connection; with the iounit the client derives, no Twrite frame it sends and no Rread it asks for exceeds the negotiated msize for every reported iounit and buffer length.",
        "level_note": "Trusted: Coq kernel; translator for error texts/numbers, IOHDRSZ/MSIZE/NOFID/NOUID and the QT*/DM*/O* bits; extraction + OCaml driver; the Go harness (scripted implementation, net.Pipe transport). One request at a time (the concurrent life cycle is C03/C07/C08/C11); the user database is the default OsUsers; the implementation is an arbitrary input (script) answering with the matching R-message or an error; the reply buffer is modelled by its capacity. Print Assumptions: closed under the global context. Rread never carrying more than Tread asked for is the Ufs read model of C14 (pread clamps to count); the client side of the negotiation (Connect adopting min / conjunction) is exercised by the C09/C10/C14 harness sessions, not modelled.",
    },
    "C09": {
        "gen": ["consts", "shape", "lockfacts"],
        "clauses": ["C09"],
        "modes": [{"name": "clnt", "harness": "clnt", "modelcheck": "clnt"},
                  {"name": "clntlog", "harness": "clntlog", "modelcheck": "clntref"}],
        "rule": "real Clnt against a scripted peer over a segment-exact fake transport: 1..5 concurrent calls with EVERY reply order (all permutations up to 4, random for 5), 16 and 64 concurrent callers in random order, reply kinds {matching R, Rerror, mismatched R} with payloads derived from each request, reply streams delivered whole, randomly split or one byte at a time; a soak of 3000 (thorough: 70000 > 65535) consecutive calls. Oracle: each call returns the payload derived from its own request and the outcome of its reply kind, tags seen by the peer pairwise distinct, soak never stalls and reuses tags; correspondence: the canonical schedule through the Coq client LTS gives the same outcome per call and conserves the tag pool. Non-trivial: >= 2 concurrent calls; distinct by content.",
        "level_text": "Coq theorems (Props/C09.v) over the client LTS (ReqAlloc/ReqFree, tag pool and Req cache, Rpcnb's critical section, hand-over to the send goroutine, recv's matching and delivery) for ANY number of callers, ANY schedule and ANY frames the peer sends: tags of live requests, cached Reqs and the pool are pairwise distinct and conserved (so a tag is available whenever fewer than 65535 calls are outstanding); the result a call returns is the frame matched with its own request, carrying its wire tag, received after the request was linked, and no frame goes to two requests; Rerror / wrong type / matching type map to error / error / success; a frame goes to the earliest-linked pending request with its tag (Tag interface FIFO).",
        "level_note": "Trusted: Coq kernel; translator (NOTAG, reqchan capacity 16); extraction + OCaml driver; Go harness. The tie is a correspondence on outcomes through a canonical schedule (the client has no schedule-point replay, unlike the server); frame contents are abstracted to (tag, kind); Fcall buffer recycling (tchan) is not modelled. Print Assumptions: closed under the global context.",
    },
    "C10": {
        "gen": ["consts", "shape", "lockfacts"],
        "clauses": ["C10"],
        "modes": [{"name": "clnt", "harness": "clnt", "modelcheck": "clnt"},
                  {"name": "clntlog", "harness": "clntlog", "modelcheck": "clntref"}],
        "rule": "CF cases (since round 8): 1..4 requests through the pipelined Tag client (Clnt.TagAlloc), 0..n-1 of them answered, then the reply stream ends: the answered ones come back with their replies, every other one comes back with an error, none hangs and the process survives (oracle only: the client LTS has no Tag layer). writefail: only the write direction of the transport fails (Write returns an error, Read keeps blocking): every outstanding and every later call must return an error. scripted sessions with 0..4 outstanding calls: the server-to-client stream cut after every byte offset (quick: every 7th), EOF, garbage / oversize (> 8*msize) / undersize frames, a reply with an unknown tag, Unmount during calls; a later call after each failure; callers held by the hook rpcnb.linked between linking their request and handing it to the send goroutine while the failure strikes. Every call must return within 3 s. Oracle: no call hangs, a call succeeds only if its complete reply was delivered, replies complete before the failure are delivered, later calls are refused; correspondence: canonical schedule through the Coq client LTS. Non-trivial: >= 2 calls; distinct by content.",
        "level_text": "Coq theorems (Props/C10.v) over the client LTS with its shutdown path (clnt.err, close(done), detaching the pending list, reporting the error to each pending request): in EVERY reachable state after a failure, while some call has not returned the client can take a step by itself and every such step decreases a bound, hence all outstanding and later calls return (no deadlock, no livelock); later calls are refused without touching the transport; success implies a complete reply frame was received; a reply matched before the failure is never replaced by the connection error; the receive loop turns bad frames into a failure and never reads with an empty buffer. 'Within bounded time' is rendered as a bound on the client's own steps.",
        "level_note": "Trusted: Coq kernel; translator; extraction + OCaml driver; Go harness with the hook rpcnb.linked. Wall-clock bounds are only measured by the harness (3 s deadline); Unmount is exercised by the oracle only (it sets clnt.err from the caller's goroutine, which the LTS models as a failure noticed by recv). Print Assumptions: closed under the global context.",
    },
    "C16": {
        "gen": ["consts", "shape"],
        "clauses": ["C16"],
        "modes": [{"name": "ufstree-meta", "harness": "ufstree", "modelcheck": "ufstree", "args": ["meta"]}],
        "rule": "Fids that have been opened are asked again: a symbolic link whose fid is open still reports the link (type, length, qid path), a name re-bound on disk while the fid is open reports the new object. random trees on a scratch directory (names with spaces, non-ASCII bytes, dots, 255-byte names; files, directories, symlinks, hard links; a 40-level chain so client walks need several Twalks): FStat of every object in both dialects compared field by field with os.Lstat (qid type/path, DMDIR, DMSYMLINK, permission bits, length, mtime, name); walks of 1..15 elements of which a prefix exists, in place and to a new fid, compared with os.Lstat (qid count and inodes, error when the first is missing) and with the host path each fid designates afterwards (accessor VerifUfsFidPath); deep and missing paths through FStat. The Coq metadata mapping is evaluated on the Lstat facts and compared with the reply. Distinct by content.",
        "level_text": "Coq theorems (Props/C16.v) over the model of Ufs.Walk (for ANY tree, given as an arbitrary existence oracle, any fid path and any name list): every walked element exists and the next does not, Rwalk carries that many qids, a missing first element is an error, and the new fid moves only when every element was walked (otherwise both fids stay); the client's FWalk in chunks of 16 names resolves exactly like one walk at any depth; qid type, DMDIR/DMSYMLINK, permission bits and qid path are functions of the file's metadata as the statement lists. Tied to the code by trees compared against os.Lstat.",
        "level_note": "Trusted: Coq kernel; extraction + OCaml driver; Go harness (spy wrapper around Ufs using the build-tagged accessor for fid paths). The tree is an oracle in the model: real Lstat/inode semantics, user and group name lookup and walks through symlinks are outside the model (compared with the OS by the harness only). Print Assumptions: closed under the global context.",
    },
    "C17": {
        "gen": ["consts", "shape"],
        "clauses": ["C17"],
        "modes": [{"name": "ufstree-mutate", "harness": "ufstree", "modelcheck": "ufstree", "args": ["mutate"]}],
        "rule": "random sequences of 14 mutations (create with all open modes incl. OTRUNC on free and occupied names and under non-directories, mkdir, symlink incl. dangling targets, write at random offsets, remove of files / empty and non-empty directories / missing names, rename to free and occupied names, truncate 0..beyond size, chmod, set mtime) applied through 9P to tree A and, using the statement's table, with os/syscall to a twin tree B; after EVERY step the trees are compared recursively (names, kinds, permission bits, contents, link targets) and the outcome and, in 9P2000.u, the error number are compared with the POSIX call on B. Distinct by content.",
        "level_text": "(Ufs/WstatExact.v, 'changes nothing else' for Twstat, for EVERY request:) a Twstat issues only chmod/chown/rename/truncate/chtimes calls, each at most once and in this order; chmod iff a mode is given, on the fid's object with the requested permission bits; chown only in 9P2000.u and only for a numeric id; truncate iff a length is given and a requested rename was allowed, on the rename's destination, to exactly that length; chtimes iff a time is given, a time at its don't-touch value being kept. Coq theorems (Props/C17.v) over the decision logic of the mutating handlers: all 256 open modes map to the access mode and O_TRUNC the statement lists (reflection over the finite domain); for every create request the system calls issued contain exactly the one corresponding POSIX operation (mkdir / symlink / link / open(O_CREAT) with the masked permission bits) and nothing else that can change the tree; a wstat with all don't-touch values does nothing, rename targets are confined and truncate/chtimes act on the renamed path. What those system calls do to the tree is the operating system's: it is validated, not proved, by the twin-tree differential after every step.",
        "level_note": "Partial by design: the handlers' choice of system calls is proved, POSIX semantics are an oracle (twin tree). Trusted: Coq kernel; extraction; Go harness. Ownership changes (chown, user lookup) are not modelled; the harness runs as root, so permission denials are not exercised. Print Assumptions: closed under the global context.",
    },
    "C18": {
        "gen": ["consts", "shape"],
        "clauses": ["C18"],
        "modes": [{"name": "ufstree-confine", "harness": "ufstree", "modelcheck": "ufstree", "args": ["confine"]}],
        "rule": "Scripted sessions create symbolic links through the protocol whose target leaves the root ('..', '../', 'sub/../..', './..', absolute) and then walk through them to the canaries outside. scratch layout outer/{canary files and directories}, outer/root/...; sessions of attach names, walk element lists, create names (files and symlinks with hostile targets) and wstat rename targets drawn from a grammar of '..', '.', '', '/', 'a/../..', absolute paths, deep '../' chains and mixtures with real names, each followed by stat/write/remove; the host path every fid designates is read through the accessor. Oracle: every fid path has the root as prefix, the canaries (content, kind, permissions, existence) are unchanged, no reply carries the inode of an outside object; correspondence: the Coq path functions (attach_path, walk_step/ufs_walk, create_path, rename_dest, symlink_ok) predict the same paths and refusals, given the listing of the tree. Distinct by content.",
        "level_text": "Coq theorems (Props/C18.v) over the model of the host paths Ufs computes with Go's lexical path functions: for ANY root, ANY byte strings as attach name, walk elements, create name, rename target and symlink target, and ANY tree: attach stays under the root, every walk step stays under the root ('..' at the root stays, elements containing '/' name nothing), create names and rename targets are confined or refused, an accepted symlink cannot lead out of its directory, and by induction over ANY request sequence every host path handed to the operating system and every fid stay under the root.",
        "level_note": "Partial w.r.t. the kernel: path resolution is modelled lexically (sound for a tree without symlinks leaving it, which the property assumes and which the create check preserves). Trusted: Coq kernel; extraction; Go harness and the accessor. Print Assumptions: closed under the global context.",
    },
    "C13": {
        "gen": ["consts", "shape"],
        "clauses": ["C13"],
        "modes": [{"name": "recv", "harness": "recv", "modelcheck": "recv"},
                  {"name": "clntseg", "harness": "clntseg", "modelcheck": "recv"},
                  {"name": "clnt", "harness": "clnt", "modelcheck": "clnt"}],
        "rule": "clntseg (the client's loop): a client with msize 64..256 has 20-150 calls outstanding, so that the reply stream fills its 8 x msize receive buffer several times; the scripted peer answers all of them in one stream (Rread with 0..msize-11 data bytes derived from the tag - frames of exactly msize bytes included -, some Rerror, sometimes a bad frame at the end) delivered whole, in pieces of 1..500 bytes and of the buffer size +-, and cut at random points; the frames the callers are handed and the fate of the connection are compared with the Coq loop (clnt_run: buffer length / position bookkeeping, growth in the middle of a message) and between the segmentations of one stream. request streams of 8-40 independent messages (tiny and near-msize Twrite payloads, unknown fids, flushes, walks) with msize 64..4096 so the 8*msize buffer wraps and is reallocated, some ending in an oversize / undersize / undecodable frame; each stream is fed to the real server through a transport whose Read returns exactly the chosen segments: whole stream, every single split point (sampled in quick), one byte at a time, 30 random k-way splits. Oracle: delivered requests (tag, type, frame md5, payload md5 at delivery and at the end), reply bytes and close decision identical to the reference segmentation; correspondence: the Coq loop model on the same segments delivers the same frames and closes iff the server does. Non-trivial: >= 2 segments; distinct by (stream, segmentation).",
        "level_text": "Coq theorems (Props/C13.v): the model of both receive loops (buffer length/pos bookkeeping, inner framing loop, size check, reallocation, parameters re-read after a synchronous Tversion) delivers, for ANY segmentation of the stream into transport reads, exactly the frames of a framing specification that is a function of the concatenated stream only; it closes on a bad frame iff the specification does; it never issues an empty Read; the buffer stays within 8*msize. Unbounded in stream length, message count and segmentation. Tied to the code by running the real server under thousands of segmentations and comparing with the model. Both loops are tied to the code: the server's and - through the clntseg mode - the client's, with reply streams that cross the end of the 8 x msize receive buffer.",
        "level_note": "Trusted: Coq kernel; translator for the 8*msize buffer factor and IOHDRSZ; extraction and OCaml driver; the Go harness (segment-exact fake net.Conn, hook recv.enqueued as delivery log). The loop model calls the decoder on the accumulated bytes and relies on C02's prefix-only theorem for the stale bytes behind pos; payload immutability is proved on the memory model Recv/Views.v (any reads, deliveries, reallocations; in-buffer compaction refuted), tied to the source by the shape fact that every copy in a receive loop goes into a freshly allocated buffer, and checked by the harness (payload md5 at delivery vs. at the end); the client loop is proved on the model and tied through the C09/C10 client harness. Print Assumptions: closed under the global context.",
        "assumptions": ["net.Conn.Read returns between 1 and len(p) bytes of the stream in order"],
    },
    "C06": {
        "gen": ["consts", "shape"],
        "clauses": ["C06"],
        "modes": [{"name": "crash", "harness": "crash", "modelcheck": None, "timeout": {"quick": 900, "thorough": 3400}},
                  {"name": "srvseq-random", "harness": "srvseq", "modelcheck": "srvseq", "args": ["random"]}],
        "rule": "(since round 7 the last quarter of the generated cases runs a second time against a child started with the library's global -akaros switch on, kinds '+akaros': observation only, Akaros mode has no model) crash search from OUTSIDE the server process: a child process hosts a scripted implementation, one with AuthOps, and Ufs on a scratch tree (unix sockets, server msize 200000); each case is one connection: (structured) the fid states {root, walked file, opened file, opened directory, clunked, removed, auth fid, opened 120-entry directory} are set up request by request, then 4-23 adversarial requests are sent in one piece so they execute concurrently - every T-message type (and R-messages sent as requests) with fids drawn from the states plus unknown/extreme numbers incl. NOFID, 32/64-bit fields from boundary tables (0, 1, msize-24+-1, 2^31, 2^32-16, 2^63, 2^64-1) or random, names from {empty, '.', '..', '/', 'a/b', '../x', NUL, invalid UTF-8, 255/256/65000+/65535 bytes}, directory reads at arbitrary offsets, negotiated msize from {24,25,26,31,32,...,200001, 2^32-1}; (structured-pipelined) the same with the setup pipelined too; (noversion) requests without Tversion/Tattach; (mutated) byte flips, truncations, size-field/16-bit-field extremes, insertions, duplicated frames on a valid session; (random) raw random bytes; some streams written 1-9 bytes at a time. The scripted implementations answer as a hash of the request: success with extreme qids/iounits, errors, 60 KB error texts, partial walks, short reads, unencodable 70000-byte stat names. After every case: child alive (exit status, stderr), Tversion probe on a fresh connection, and a bystander connection per server still answered. One case = one connection. The srvseq-random mode ties the request-path model the theorems are about to the real framework (same comparison as C04/C05).",
        "level_text": "Coq theorems (Props/C06.v): a composition over every stage client bytes pass through, each for ALL inputs and states: the decoder never panics on any byte string (both dialects; stat records too); the receive loop hands on only well-framed messages within msize for any stream and segmentation, never reads into an empty slice, and ends (only) its own loop on a bad frame; on the request path, for EVERY request history (any message incl. R-messages, NOFID, unknown/stale/reused fids, any order, any msize >= 24) and whatever the implementation answers, every fid pointer a handler dereferences is set, NOFID/unknown fids are refused before a handler runs, the error text is sliced with a non-negative bound and the reply is a packed message of 7..msize bytes when its tag is patched; a count of 2^32-16 is refused (uint32 arithmetic); under pipelined, concurrently executing requests a fid whose creating request is unanswered is never handed to a handler, for every interleaving (and the unguarded FidGet is refuted by a 4-step schedule: the defect that was repaired); the Ufs directory window never slices out of range for any offset and count. What a theorem cannot exhibit - the Go runtime aborting the process - is observed from outside by the crash harness.",
        "level_note": "Partial: the crash sites are the ones made explicit in the models (nil fid pointers, slice bounds of the decoder, the directory window, the error-text slice, SetTag); a Go panic at a site the models do not represent (e.g. inside os/syscall wrappers of Ufs, type assertions on SrvFid.Aux beyond the visibility guard, the stats/http code) is only searched for by the crash harness. The fid-visibility LTS is hand-written after FidNew/FidGet/retain and assumes the implementation sets a fid up before it answers success. Trusted: Coq kernel; translator for constants; extraction + OCaml driver (srvseq tie); Go harness; the operating system's process semantics for the outside observation. Print Assumptions: closed under the global context.",
        "assumptions": ["the implementation sets up a fid (SrvFid.Aux) before it answers the creating Tattach/Tauth/Twalk with success", "the implementation itself does not panic on the requests it is handed (the scripted ones are total; Ufs is covered by the crash search and, for directory reads and paths, by C15/C18 theorems)"],
    },
    "C19": {
        "gen": ["consts", "lockfacts"],
        "modes": [{"name": "raceload", "harness": "raceload", "modelcheck": None, "race": True, "timeout": {"quick": 600, "thorough": 2400}}],
        "rule": "rounds of concurrent workloads in the -race build of the harness: 2-4 connections x 3-6 client goroutines sharing one Clnt, each goroutine working on its own fids (create/write/read, stat by path, directory read, remove, wstat, multi-name walks; every path helper walks from the shared root fid), reads flushed while outstanding, a Tversion at the start of every session, further connections mounted and dropped (quiescent) while the others are busy; alternately against Ufs on a scratch tree (unix socket) and a scripted in-memory implementation answering from other goroutines (in-process pipes), with stateless random delays at every schedule point of the library. After every round the race detector log is read; a report whose racing access (first frame outside the Go runtime) lies in /repo is a failing case. One case = one round.",
        "level_text": "Coq theorems (Props/C19.v): (1) every read and write of a mutex-protected field found by the translator in the CURRENT source (Conn.reqs/fidpool/counters, SrvReq.status, tag-group and flush links, SrvFid.refcount, Srv.conns, Clnt.reqfirst/reqlast/err, Req links, osUsers tables) is made with the owning mutex held, or on an object not yet shared, or is one of the listed ordered exceptions; no call into the implementation and no channel operation is made under a mutex (compliance evaluated by the kernel over all ~900 access and call facts; non-vacuity: every protected field is written under its lock somewhere); the walk handlers of the framework and of Ufs never write their source fid, directly or through a method that writes its receiver without the receiver's mutex (the property's 'walks may share a fid' exception); (2) in an abstract happens-before semantics of goroutines, mutexes, go statements and shared variables, for EVERY well-formed trace (any number of goroutines, any interleaving) accesses to a variable all made under one common mutex are ordered by happens-before, and a trace whose variables are each guarded or confined has no data race. The remaining (exempt) state - per-fid fields, request fields handed over by go/channel, Msize/Dotu - rests on the workload hypothesis of the property and is exercised under the Go race detector.",
        "level_note": "Partial: the theorem covers the mutex-protected state; exempt fields (per-fid state under the different-fids hypothesis, hand-off by go statement and channel, confinement) are covered only by the race-detector workload, which samples schedules. The translator's lockset tracking (syntactic, intersection at joins, closures analysed with an empty lockset) is trusted; the link from 'site holds the mutex' to guarded_by in the trace semantics is by construction of the translator, not proved. The scripted implementation is a conforming one: it cancels (req.Flush()) only requests it was handed and has not answered. Trusted: Coq kernel; Go race detector. Print Assumptions: closed under the global context.",
        "assumptions": ["requests concurrently outstanding on a connection operate on different fids (walks from a shared fid excepted)", "the file-server implementation cancels only requests it was handed and has not answered, and does not answer a request it cancelled", "Go memory model: mutex unlock/lock, go statement and channel send/receive are happens-before edges"],
    },
    "C20": {
        "gen": ["consts", "shape"],
        "level_text": "Coq theorems (Props/C20.v) over the ring/LTS model of log.go: for every capacity >= 1 and every Log/Filter sequence the index-arithmetic model of doLog's two passes returns exactly the matching entries of the last min(k,N) logged, in order, never panicking or running out of fuel; in the producer/channel/logger LTS every Filter result is the window of a prefix of an order-preserving merge, Filter converges once the channel drains, and the logger is never stuck. The model is tied to the code by exact differential comparison of sequential Log/Filter histories on the real Logger and by the Coq-defined oracle on concurrent histories.",
        "level_note": "Trusted: Coq kernel; translator for cap_logchan; extraction (ExtrOcamlBasic only) and the OCaml driver; the Go harness. Assumed: goroutine scheduling fairness for convergence; pointer identity of *Log modelled by unique ids. Resize is not part of the property and is not modelled. Print Assumptions: closed under the global context.",
        "modes": [{"name": "log", "harness": "log", "modelcheck": "log"}],
        "rule": "random Log/Filter sequences on the real Logger, capacities 1..64, lengths below/at/far above capacity; "
                "sequential cases compared exactly with the Coq ring model (run_ops) and judged by filter_result_ok; "
                "concurrent cases (2-4 producers + a Filter goroutine) judged by conc_result_ok/conc_final_ok. "
                "Non-trivial: sequential case whose ring wrapped before a Filter, or concurrent case with a non-empty concurrent Filter result; distinct by content hash.",
        "assumptions": ["goroutine scheduling fairness for the convergence clause (the harness waits for a sentinel entry)"],
    },
}
