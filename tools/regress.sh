#!/bin/bash
cd "$1"  # a scratch copy of /verif containing mutlist.txt (ids of seeded changes, one per line)
for m in $(cat mutlist.txt); do
  echo "=== $m"
  timeout 2400 tools/trymutant.sh ${m:0:3} /verif/seeded/$m quick 2>&1 | grep -E "^CONFIRM|^CHECK|^STRENGTH|apply"
done
