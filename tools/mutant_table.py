#!/usr/bin/env python3
"""prints the markdown table of seeded changes from seeded/*/meta.json"""
import json, os, sys
V = os.path.dirname(os.path.dirname(os.path.abspath(__file__)))
rows = []
for d in sorted(os.listdir(os.path.join(V, "seeded"))):
    mp = os.path.join(V, "seeded", d, "meta.json")
    if not os.path.exists(mp):
        continue
    m = json.load(open(mp))
    rows.append("| %s | %s | %s | %s | %s |" % (d, m.get("change", "").replace("|", "/"), m.get("result", "").replace("|", "/"),
                                          "yes" if m.get("proof_side_breaks") else "-",
                                          "yes: " + m.get("strengthened", "") if m.get("missed_at_first") else "no"))
print("| id | change | caught by | proof obligation breaks | missed at first / strengthened |")
print("|----|--------|-----------|-------------------------|-------------------------------|")
print("\n".join(rows))
