#!/usr/bin/env python3
"""Regenerates /verif/MANIFEST.json from lib/props.py (claimed properties) and
properties.jsonl (everything else goes to not_applicable with its reason)."""
import json, os, sys, subprocess
V = os.path.dirname(os.path.dirname(os.path.abspath(__file__)))
sys.path.insert(0, os.path.join(V, "lib"))
import props as P
ids = [json.loads(l)["id"] for l in open(os.path.join(V, "properties.jsonl"))]
hooks_commits = []
hf = os.path.join(V, "hooks_commits.txt")
if os.path.exists(hf):
    hooks_commits = [l.split()[0] for l in open(hf) if l.strip() and not l.startswith("#")]
checks = []
for pid in ids:
    c = P.PROPS.get(pid)
    if not c or not c.get("claimed", True):
        continue
    checks.append({
        "property_id": pid,
        "quick_cmd": "./check %s --tier quick" % pid,
        "thorough_cmd": "./check %s --tier thorough" % pid,
        "evidence_file": "evidence/%s.json" % pid,
        "replay_cmd_template": "./check %s --replay {path}" % pid,
        "engine": "rocq-proof+correspondence",
        "level_claimed": {"category": "proof", "text": c["level_text"], "design_ref": "DESIGN.md section 6, " + pid},
        "level_note": c["level_note"],
        "technique": c.get("technique", "machine-checked proof in Rocq (Coq 8.16.1) over executable Gallina models; the models are tied to /repo on every run by (1) translators (gen/) that regenerate constants and tables, lock facts and per-function event sequences from the Go source - the proofs, the lockset compliance and the models' structural parameters are re-checked against them - and (2) a correspondence check that runs the models extracted to OCaml and the real Go code on the same inputs, histories and recorded schedule-point traces"),
    })
na = []
for pid in ids:
    if pid not in [c["property_id"] for c in checks]:
        reason = (P.PROPS.get(pid) or {}).get("na_reason") or P.NOT_YET.get(pid, "check not built yet (work in progress; see DESIGN.md section 8 build order)")
        na.append({"property_id": pid, "reason": reason})
m = {
    "version": 1,
    "setup_cmd": "./setup.sh",
    "hooks": {"guard": "verif", "enable": "go build -tags verif (the harness module replaces github.com/rminnich/go9p by /repo)",
              "baseline_off_cmd": "cd /repo && go test -vet=off -count=1 ./...",
              "source_commits": hooks_commits, "add_only": True},
    "engines": [{"name": "rocq-proof+correspondence", "path": "check",
                 "serves_properties": [c["property_id"] for c in checks],
                 "kind_free_text": "Coq 8.16.1 theorems over hand-written executable Gallina models (coq/theories), re-checked on every run against constants/tables, lock facts and per-function event sequences regenerated from /repo by gen/ (Gen/Consts.v, Gen/LockFacts.v, Gen/Shape.v); models extracted to OCaml (ocaml/) and run against the real Go code driven by harness/ on the same inputs/histories; property oracles defined in Coq decide the implementation's observations and yield replays"}],
    "checks": checks,
    "not_applicable": na,
    "notes": "All checks rebuild from /repo's working tree (harness with -tags verif; Gen/*.v regenerated). See DESIGN.md for the trusted base and per-property labels; known_findings.txt lists recorded findings and fix: commits.",
}
json.dump(m, open(os.path.join(V, "MANIFEST.json"), "w"), indent=1)
print("MANIFEST: %d checks, %d not_applicable" % (len(checks), len(na)))
