#!/bin/sh
# usage: goal.sh <file.v> <line>  -- show the proof state after <line> lines
f=$1; n=$2
d=$(dirname $f); b=$(basename $f .v)
tmp=$d/Tmp_goal_$$.v
head -n $n $f > $tmp
printf '\nShow.\n' >> $tmp
cd /verif/coq && timeout 300 coqc -Q theories V9 $tmp 2>&1 | tail -${3:-60}
rm -f $d/Tmp_goal_$$.* $d/.Tmp_goal_$$.*
