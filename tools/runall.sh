#!/bin/bash
# runs every claimed check at the given tier (default quick), one line per property; optional list of ids
cd "$(dirname "$(readlink -f "$0")")/.."
tier=${1:-quick}; shift
ids="$@"
[ -z "$ids" ] && ids=$(python3 -c "import json;print(' '.join(c['property_id'] for c in json.load(open('MANIFEST.json'))['checks']))")
for p in $ids; do
  s=$(date +%s)
  out=$(./check $p --tier $tier 2>&1 | grep -E "^(OK|VIOLATION|KNOWN-FINDING|CHECK-ERROR)" | head -3 | tr '\n' '|')
  echo "$p $(( $(date +%s) - s ))s $out"
done
