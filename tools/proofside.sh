#!/bin/bash
# proof-side sensitivity: for every seeded change, do the regenerated Gen/*.v still let Props/<prop>.vo check?
cd /tmp/pc  # a scratch copy: rsync -a /verif/coq /tmp/pc/ ; go build -o /tmp/pc/gen /verif/gen
git -C /repo worktree add -q --detach /tmp/pc/wt HEAD
for d in /verif/seeded/*/; do
  m=$(basename $d); p=${m:0:3}
  (cd wt && git checkout -q -- . && git apply $d/patch.diff) || { echo "$m apply-failed"; continue; }
  ok=1
  for mode in consts:Consts.v lockfacts:LockFacts.v shape:Shape.v; do
    ./gen ${mode%%:*} /tmp/pc/wt coq/theories/Gen/${mode##*:} >/dev/null 2>&1 || ok=0
  done
  if [ $ok = 0 ]; then echo "$m PROOF-SIDE: translator refuses the source"; continue; fi
  if (cd coq && timeout 1500 make -j4 theories/Props/$p.vo >/dev/null 2>&1); then echo "$m proofs-still-check"; else echo "$m PROOF-SIDE: Props/$p.vo breaks"; fi
done
git -C /repo worktree remove --force /tmp/pc/wt
