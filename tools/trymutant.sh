#!/bin/bash
# usage: trymutant.sh <prop> <mutantdir> [tier]   mutantdir has patch.diff and demo_test.go
# 1. confirms in a scratch worktree: builds, existing suite passes with the patch, demo fails with it and passes without
# 2. runs ./check <prop> with VERIF_REPO pointing at the scratch worktree with the patch (never touches /repo)
prop=$1; dir=$2; tier=${3:-quick}
V="$(cd "$(dirname "$(readlink -f "$0")")/.." && pwd)"
export GOFLAGS=-mod=mod GOPROXY=off
wt=/tmp/confirm.$$
git -C /repo worktree add -q --detach $wt HEAD || exit 2
res=""
( cd $wt && git apply $dir/patch.diff ) || { echo "CONFIRM: patch does not apply"; git -C /repo worktree remove --force $wt; exit 2; }
( cd $wt && go build ./... ) >/dev/null 2>&1 && res="$res build=ok" || res="$res build=FAIL"
( cd $wt && timeout 300 go test -vet=off -count=1 ./... ) >/dev/null 2>&1 && res="$res suite_with_patch=pass" || res="$res suite_with_patch=FAIL"
cp $dir/demo_test.go $wt/zz_demo_test.go
tests=$(grep -o '^func Test[A-Za-z0-9_]*' $dir/demo_test.go | sed 's/func //' | paste -sd'|')
race=""; grep -q -- "-race" $dir/README.md 2>/dev/null && [ "${prop}" = "C19" ] && race="-race"
( cd $wt && timeout 300 go test $race -vet=off -count=1 -run "^($tests)\$" . ) >/dev/null 2>&1 && res="$res demo_with_patch=PASS(bad)" || res="$res demo_with_patch=fails"
( cd $wt && git checkout -q -- . )
( cd $wt && timeout 300 go test $race -vet=off -count=1 -run "^($tests)\$" . ) >/dev/null 2>&1 && res="$res demo_without_patch=passes" || res="$res demo_without_patch=FAILS(bad)"
echo "CONFIRM:$res"
# the check runs against the scratch worktree with the patch applied (VERIF_REPO): /repo is never touched
( cd $wt && git apply $dir/patch.diff ) || { echo "cannot re-apply"; git -C /repo worktree remove --force $wt; exit 2; }
cd $V
start=$(date +%s)
VERIF_REPO=$wt VERIF_SEED=${VERIF_SEED:-1} timeout 3000 ./check $prop --tier $tier > $V/out/mutant.$prop.log 2>&1
rc=$?
git -C /repo worktree remove --force $wt
end=$(date +%s)
echo "CHECK $prop tier=$tier exit=$rc secs=$((end-start))"
grep -m3 "VIOLATION\|CHECK-ERROR\|^OK" $V/out/mutant.$prop.log | cut -c1-300
python3 - <<PYEOF
import json
try:
    c = json.load(open("$V/evidence/$prop.json"))["coverage"]
    print("STRENGTH oracle_failures=%d correspondence_disagreements=%d proof_ok=%s hunted=%s" % (c["oracle_failures"], c["correspondence_disagreements"], c["discharged"] > 0, c["hunted_thorough"]))
except Exception as e:
    print("STRENGTH ?", e)
PYEOF
# evidence/<prop>.json now describes the mutant run: regenerate it from /repo before committing
